"""
Expression AST for model equations: independent evaluator, renderer to irispie model text,
finite differences. No irispie imports.

AST nodes are JSON-friendly lists:
  ["num", 1.5]
  ["par", "alpha"]
  ["var", "x", -1]                        variable / shock occurrence at a shift
  ["neg", a]
  ["bin", "+"|"-"|"*"|"/"|"^", a, b]
  ["call", "log"|"exp"|"sqrt"|"logistic"|"maximum"|"minimum"|"abs"|"normal_cdf"|"normal_pdf"|<user>, [args]]
  ["pseudo", "diff"|"diff_log"|"pct"|"roc"|"mov_sum"|"mov_avg"|"mov_prod"|"shift", a, k|None]   (k: integer shift; None = default)

Evaluation data: dict name -> 1-D numpy array over columns (time); params: dict name -> float;
t: integer or integer array of column positions.
"""

from __future__ import annotations

import math

import numpy as np
from scipy import special as _sps
from scipy import stats as _sst

PSEUDO_DEFAULT_SHIFT = {
    "shift": -1, "diff": -1, "diff_log": -1, "pct": -1, "roc": -1,
    "mov_sum": -4, "mov_avg": -4, "mov_prod": -4,
}
PSEUDO_SPELLINGS = {
    "shift": ["shift"], "diff": ["diff"], "diff_log": ["diff_log", "difflog"], "pct": ["pct"], "roc": ["roc"],
    "mov_sum": ["mov_sum", "movsum"], "mov_avg": ["mov_avg", "movavg"], "mov_prod": ["mov_prod", "movprod"],
}

FUNCS = {
    "log": np.log,
    "exp": np.exp,
    "sqrt": np.sqrt,
    "abs": np.abs,
    "logistic": _sps.expit,
    "normal_cdf": _sst.norm.cdf,
    "normal_pdf": _sst.norm.pdf,
    "maximum": np.maximum,
    "minimum": np.minimum,
}


def num(v):
    return ["num", float(v)]


def par(n):
    return ["par", n]


def var(n, s=0):
    return ["var", n, int(s)]


def neg(a):
    return ["neg", a]


def bin_(op, a, b):
    return ["bin", op, a, b]


def call(f, *args):
    return ["call", f, list(args)]


def pseudo(f, a, k=None):
    return ["pseudo", f, a, k]


def add_all(terms):
    out = terms[0]
    for t in terms[1:]:
        out = ["bin", "+", out, t]
    return out


# ------------------------------------------------------------------------------
# evaluation
# ------------------------------------------------------------------------------


def evaluate(node, data, params, t, user_funcs=None, shock_twin=None):
    """Evaluate node at column(s) t. shock_twin: dict shock_name -> twin name; an occurrence of
    the shock evaluates to shock + twin (anticipated twins of transition shocks)."""
    kind = node[0]
    if kind == "num":
        return node[1] + 0.0 * np.asarray(t, dtype=float) if isinstance(t, np.ndarray) else node[1]
    if kind == "par":
        v = params[node[1]]
        return v + 0.0 * np.asarray(t, dtype=float) if isinstance(t, np.ndarray) else v
    if kind == "var":
        name, s = node[1], node[2]
        v = data[name][np.asarray(t) + s] if isinstance(t, np.ndarray) else data[name][t + s]
        if shock_twin and name in shock_twin:
            tw = data[shock_twin[name]]
            v = v + (tw[np.asarray(t) + s] if isinstance(t, np.ndarray) else tw[t + s])
        return v
    if kind == "neg":
        return -evaluate(node[1], data, params, t, user_funcs, shock_twin)
    if kind == "bin":
        op = node[1]
        a = evaluate(node[2], data, params, t, user_funcs, shock_twin)
        b = evaluate(node[3], data, params, t, user_funcs, shock_twin)
        if op == "+":
            return a + b
        if op == "-":
            return a - b
        if op == "*":
            return a * b
        if op == "/":
            return a / b
        if op == "^":
            return np.power(np.asarray(a, dtype=float), b) if isinstance(a, np.ndarray) or isinstance(b, np.ndarray) else float(a) ** float(b)
        raise ValueError(op)
    if kind == "call":
        f = node[1]
        args = [evaluate(a, data, params, t, user_funcs, shock_twin) for a in node[2]]
        if f in FUNCS:
            return FUNCS[f](*args)
        return user_funcs[f](*args)
    if kind == "pseudo":
        f, a, k = node[1], node[2], node[3]
        k = PSEUDO_DEFAULT_SHIFT[f] if k is None else int(k)
        ev = lambda sh: evaluate(a, data, params, (np.asarray(t) + sh) if isinstance(t, np.ndarray) else t + sh, user_funcs, shock_twin)
        if f == "shift":
            return ev(k)
        if f == "diff":
            return ev(0) - ev(k)
        if f == "diff_log":
            return np.log(ev(0)) - np.log(ev(k))
        if f == "pct":
            return 100 * ev(0) / ev(k) - 100
        if f == "roc":
            return ev(0) / ev(k)
        if f in ("mov_sum", "mov_avg", "mov_prod"):
            # window of |k| periods starting at the current one, going in the direction of sign(k)
            if k == 0:
                shifts = []
            else:
                step = 1 if k > 0 else -1
                shifts = list(range(0, k, step))
            vals = [ev(sh) for sh in shifts]
            if f == "mov_sum":
                return sum(vals) if vals else 0.0
            if f == "mov_avg":
                return sum(vals) / len(vals)
            out = vals[0]
            for v in vals[1:]:
                out = out * v
            return out
        raise ValueError(f)
    raise ValueError(kind)


def occurrences(node, out=None, shift=0):
    """set of (name, effective shift) of var nodes, pseudofunction shifts applied"""
    if out is None:
        out = set()
    kind = node[0]
    if kind == "var":
        out.add((node[1], node[2] + shift))
    elif kind == "neg":
        occurrences(node[1], out, shift)
    elif kind == "bin":
        occurrences(node[2], out, shift)
        occurrences(node[3], out, shift)
    elif kind == "call":
        for a in node[2]:
            occurrences(a, out, shift)
    elif kind == "pseudo":
        f, a, k = node[1], node[2], node[3]
        k = PSEUDO_DEFAULT_SHIFT[f] if k is None else int(k)
        if f == "shift":
            occurrences(a, out, shift + k)
        elif f in ("diff", "diff_log", "pct", "roc"):
            occurrences(a, out, shift)
            occurrences(a, out, shift + k)
        else:
            step = 1 if k > 0 else -1
            for sh in range(0, k, step):
                occurrences(a, out, shift + sh)
    return out


def names_of(node, kinds=("var",), out=None):
    if out is None:
        out = set()
    kind = node[0]
    if kind in kinds:
        out.add(node[1])
    if kind == "neg":
        names_of(node[1], kinds, out)
    elif kind == "bin":
        names_of(node[2], kinds, out)
        names_of(node[3], kinds, out)
    elif kind == "call":
        for a in node[2]:
            names_of(a, kinds, out)
    elif kind == "pseudo":
        names_of(node[2], kinds, out)
    return out


def depth(node):
    kind = node[0]
    if kind in ("num", "par", "var"):
        return 0
    if kind == "neg":
        return 1 + depth(node[1])
    if kind == "bin":
        return 1 + max(depth(node[2]), depth(node[3]))
    if kind == "call":
        return 1 + max(depth(a) for a in node[2])
    if kind == "pseudo":
        return 1 + depth(node[2])
    return 0


def has_kind(node, kind_name, fname=None):
    kind = node[0]
    if kind == kind_name and (fname is None or node[1] == fname):
        return True
    if kind == "neg":
        return has_kind(node[1], kind_name, fname)
    if kind == "bin":
        return has_kind(node[2], kind_name, fname) or has_kind(node[3], kind_name, fname)
    if kind == "call":
        return any(has_kind(a, kind_name, fname) for a in node[2])
    if kind == "pseudo":
        return has_kind(node[2], kind_name, fname)
    return False


def expand_pseudo(node):
    """Semantically equivalent tree without pseudo nodes (independent of irispie's text expansion)"""
    kind = node[0]
    if kind in ("num", "par", "var"):
        return node
    if kind == "neg":
        return ["neg", expand_pseudo(node[1])]
    if kind == "bin":
        return ["bin", node[1], expand_pseudo(node[2]), expand_pseudo(node[3])]
    if kind == "call":
        return ["call", node[1], [expand_pseudo(a) for a in node[2]]]
    if kind == "pseudo":
        f, a, k = node[1], expand_pseudo(node[2]), node[3]
        k = PSEUDO_DEFAULT_SHIFT[f] if k is None else int(k)
        if f == "shift":
            return shift_tree(a, k)
        if f == "diff":
            return ["bin", "-", a, shift_tree(a, k)]
        if f == "diff_log":
            return ["bin", "-", ["call", "log", [a]], ["call", "log", [shift_tree(a, k)]]]
        if f == "pct":
            return ["bin", "-", ["bin", "/", ["bin", "*", ["num", 100.0], a], shift_tree(a, k)], ["num", 100.0]]
        if f == "roc":
            return ["bin", "/", a, shift_tree(a, k)]
        step = 1 if k > 0 else -1
        terms = [shift_tree(a, sh) for sh in range(0, k, step)]
        if f == "mov_prod":
            out = terms[0]
            for tt in terms[1:]:
                out = ["bin", "*", out, tt]
            return out
        s = add_all(terms)
        if f == "mov_avg":
            return ["bin", "/", s, ["num", float(len(terms))]]
        return s
    raise ValueError(kind)


def shift_tree(node, k):
    kind = node[0]
    if kind in ("num", "par"):
        return node
    if kind == "var":
        return ["var", node[1], node[2] + k]
    if kind == "neg":
        return ["neg", shift_tree(node[1], k)]
    if kind == "bin":
        return ["bin", node[1], shift_tree(node[2], k), shift_tree(node[3], k)]
    if kind == "call":
        return ["call", node[1], [shift_tree(a, k) for a in node[2]]]
    if kind == "pseudo":
        return ["pseudo", node[1], shift_tree(node[2], k), node[3]]
    raise ValueError(kind)


# ------------------------------------------------------------------------------
# rendering to model text
# ------------------------------------------------------------------------------

_PREC = {"+": 1, "-": 1, "*": 2, "/": 2, "^": 4}


def fmt_num(v, style="plain"):
    v = float(v)
    if v == int(v) and abs(v) < 1e9:
        s = str(int(v)) if style != "dot" else f"{int(v)}.0"
    else:
        s = repr(round(v, 10))
        if "e" in s or "E" in s:
            s = f"{v:.12f}".rstrip("0")
    return s


def sci_num(v):
    """scientific notation that parses back to exactly v"""
    for digits in range(1, 18):
        t = f"{v:.{digits}e}"
        if float(t) == v:
            mant, ex = t.split("e")
            mant = mant.rstrip("0").rstrip(".") if "." in mant else mant
            return f"{mant}e{int(ex):+d}" if int(ex) < 0 else f"{mant}e{int(ex)}"
    return repr(v)


def dot_num(v):
    """.5 / 3. spellings"""
    s = fmt_num(v)
    if s.startswith("0.") and len(s) > 2:
        return s[1:]
    if s.isdigit():
        return s + "."
    return s


class Renderer:
    """Renders an AST into model text.
    profile keys (all optional):
      shift_style: "square" | "curly" | "mixed"      x[-1] / x{-1}
      shift_plus: bool        write leads as [+1] instead of [1]
      shift_blank: bool       blanks inside brackets
      parens: "minimal" | "full" | "mixed"
      spaces: "none" | "some" | "wide"
      power: "^"              (the language's power operator)
      pseudo_spelling: index into PSEUDO_SPELLINGS lists
      pseudo_explicit_default: bool   write the default shift explicitly
    rng: numpy Generator used for "mixed" choices (optional)
    """

    def __init__(self, profile=None, rng=None):
        self.p = dict(profile or {})
        self.rng = rng

    def _coin(self, prob=0.5):
        if self.rng is None:
            return False
        return bool(self.rng.random() < prob)

    def shift_str(self, s):
        if s == 0:
            return ""
        style = self.p.get("shift_style", "square")
        if style == "mixed":
            style = "curly" if self._coin() else "square"
        body = f"{s:+d}" if (s < 0 or self.p.get("shift_plus", False)) else f"{s:d}"
        if self.p.get("shift_blank", False):
            body = f" {body[0]} {body[1:]} " if body[0] in "+-" else f" {body} "
        return ("{" + body + "}") if style == "curly" else ("[" + body + "]")

    def sp(self):
        mode = self.p.get("spaces", "some")
        if mode == "none":
            return ""
        if mode == "wide":
            return "  "
        return " "

    def render(self, node, parent_prec=0, side=None, parent_op=None):
        kind = node[0]
        full = self.p.get("parens", "minimal")
        if full == "mixed":
            full = "full" if self._coin(0.3) else "minimal"
        if kind == "num":
            s = fmt_num(abs(node[1]))
            style = self.p.get("num_style", "plain")
            if style == "sci" and self._coin(0.5):
                s = sci_num(abs(node[1]))
            elif style == "dot" and self._coin(0.5):
                s = dot_num(abs(node[1]))
            if node[1] < 0 or (node[1] == 0 and math.copysign(1, node[1]) < 0):
                return "(-" + s + ")"
            return s
        if kind == "par" or kind == "raw":   # "raw": literal text treated as an atom (renderer-side only)
            return node[1]
        if kind == "var":
            return node[1] + self.shift_str(node[2])
        if kind == "neg":
            inner = self.render(node[1], 3)
            return "(-" + inner + ")"
        if kind == "bin":
            op = node[1]
            prec = _PREC[op]
            sp = self.sp() if op in "+-" else ("" if self.p.get("spaces", "some") != "wide" else " ")
            if op == "^":
                a = self.render(node[2], 5)
                b = self.render(node[3], 5)
                s = a + "^" + b
                need = parent_prec >= 4
            else:
                a = self.render(node[2], prec, "l", op)
                b = self.render(node[3], prec, "r", op)
                s = a + sp + op + sp + b
                need = parent_prec > prec or (parent_prec == prec and side == "r" and parent_op in "-/") \
                    or (parent_prec == prec and side == "r" and parent_op == "*" and op == "/" and False)
            if need or full == "full":
                return "(" + s + ")"
            return s
        if kind == "call":
            args = ("," + (" " if self.p.get("spaces", "some") != "none" else "")).join(self.render(a, 0) for a in node[2])
            return node[1] + "(" + args + ")"
        if kind == "pseudo":
            f, a, k = node[1], node[2], node[3]
            spell = PSEUDO_SPELLINGS[f]
            name = spell[self.p.get("pseudo_spelling", 0) % len(spell)]
            # the argument is rendered with minimal parentheses (the expander documents ONE level of parentheses)
            sub = Renderer(dict(self.p, parens="minimal"), self.rng)
            sub.__class__ = self.__class__
            inner = sub.render(a, 0)
            if k is None and self.p.get("pseudo_explicit_default", False):
                k = PSEUDO_DEFAULT_SHIFT[f]
            if k is None:
                return f"{name}({inner})"
            ks = f"{int(k):+d}" if (k < 0 or self._coin()) else f"{int(k):d}"
            return f"{name}({inner},{'' if self.p.get('spaces', 'some') == 'none' else ' '}{ks})"
        raise ValueError(kind)


def render(node, profile=None, rng=None):
    return Renderer(profile, rng).render(node)


def paren_depth(text):
    d = m = 0
    for ch in text:
        if ch == "(":
            d += 1
            m = max(m, d)
        elif ch == ")":
            d -= 1
    return m


# ------------------------------------------------------------------------------
# finite differences (Richardson-extrapolated central differences)
# ------------------------------------------------------------------------------


def richardson(f, x0, h0=None, rel=1e-3):
    """d f / d x at x0 with error estimate. f: float -> float."""
    h = h0 if h0 is not None else rel * max(1.0, abs(x0))
    def cd(hh):
        return (f(x0 + hh) - f(x0 - hh)) / (2 * hh)
    d1 = cd(h)
    d2 = cd(h / 2)
    d4 = cd(h / 4)
    r1 = (4 * d2 - d1) / 3
    r2 = (4 * d4 - d2) / 3
    rr = (16 * r2 - r1) / 15
    err = abs(rr - r2) + 1e-13 * (abs(rr) + abs(f(x0)) / h)
    return rr, err
