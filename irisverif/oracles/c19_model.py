"""
c19_model -- independent reference model of Databox / CSV / Dataslate semantics (no irispie imports)

A time series is modelled as a period-indexed map

    SM(freq, nv, desc, lo, hi, cells)     cells: {(period ordinal, variant): float}   (missing == absent)

with `freq` one of "Y","H","Q","M","D","I" (None: no start period, frequency unknown), `nv` the number of
variants, and `lo..hi` the STORED span (first/last row kept by the object; may include all-missing edge rows
after a clip; None when the series has no start). Period ordinals are computed from the calendar only:
Y: year, H: 2*year+half-1, Q: 4*year+quarter-1, M: 12*year+month-1, D: datetime.date.toordinal(), I: the integer.

Anything that is not a series is a python value PV(v) compared by type and ==.

An *expectation* for a databox is   {name: [alternative, ...]}   where an alternative is an SM (optionally with
`either` cells that may be present or absent, and `check_desc`), a PV, or ABSENT; `ANY` accepts everything.
Several alternatives are used exactly where the property statement does not decide the outcome (see the
"Not decided" list of props/c19.py); they never hide a difference on decided cells.
"""

from __future__ import annotations

import datetime
import math

FREQS = ("Y", "H", "Q", "M", "D", "I")
NAME_TO_LETTER = {"YEARLY": "Y", "HALFYEARLY": "H", "QUARTERLY": "Q", "MONTHLY": "M", "DAILY": "D", "INTEGER": "I"}
LETTER_TO_VALUE = {"Y": 1, "H": 2, "Q": 4, "M": 12, "D": 365, "I": 0}
PER_YEAR = {"Y": 1, "H": 2, "Q": 4, "M": 12}


class Hazard(Exception):
    """the inputs are outside what the property decides (the real call may raise or do anything)"""


# ------------------------------------------------------------------------------
# calendar
# ------------------------------------------------------------------------------


def ordinal(freq, year, seg=1, day=1):
    if freq in PER_YEAR:
        return PER_YEAR[freq] * year + (seg - 1)
    if freq == "D":
        return datetime.date(year, seg, day).toordinal()
    if freq == "I":
        return year
    raise ValueError(freq)


def unordinal(freq, o):
    """(year, segment, day) -- arguments of the irispie constructors yy/hh/qq/mm/dd/ii"""
    if freq in PER_YEAR:
        n = PER_YEAR[freq]
        return (o // n, o % n + 1, 1)
    if freq == "D":
        d = datetime.date.fromordinal(o)
        return (d.year, d.month, d.day)
    if freq == "I":
        return (o, 1, 1)
    raise ValueError(freq)


def label(freq, o):
    """SDMX label, written independently (used for messages and for a sanity check of the ordinal mapping)"""
    y, s, d = unordinal(freq, o)
    if freq == "Y":
        return f"{y:04d}"
    if freq == "H":
        return f"{y:04d}-H{s}"
    if freq == "Q":
        return f"{y:04d}-Q{s}"
    if freq == "M":
        return f"{y:04d}-{s:02d}"
    if freq == "D":
        return f"{y:04d}-{s:02d}-{d:02d}"
    return f"({o})"


# ------------------------------------------------------------------------------
# values
# ------------------------------------------------------------------------------


class _Absent:
    def __repr__(self):
        return "ABSENT"


class _Any:
    def __repr__(self):
        return "ANY"


ABSENT = _Absent()
ANY = _Any()


class PV:
    """snapshot of a non-series item"""
    __slots__ = ("v",)

    def __init__(self, v):
        self.v = v

    def __repr__(self):
        return f"PV({self.v!r})"


class SM:
    __slots__ = ("freq", "nv", "desc", "lo", "hi", "cells", "either", "check_desc", "rtol", "atol")

    def __init__(self, freq, nv, desc="", lo=None, hi=None, cells=None):
        self.freq = freq
        self.nv = int(nv)
        self.desc = desc
        self.lo = lo
        self.hi = hi
        self.cells = dict(cells) if cells else {}
        self.either = None      # {(o, v): value} cells that may be present (with that value) or missing
        self.check_desc = True
        self.rtol = 0.0         # comparison tolerance (only the CSV round trip sets it: declared rounding)
        self.atol = 0.0

    def copy(self):
        new = SM(self.freq, self.nv, self.desc, self.lo, self.hi, self.cells)
        new.either = dict(self.either) if self.either else None
        new.check_desc = self.check_desc
        new.rtol, new.atol = self.rtol, self.atol
        return new

    def obs_span(self):
        if not self.cells:
            return None
        os_ = [o for o, _ in self.cells]
        return min(os_), max(os_)

    def trim(self):
        """stored span := span of the observations (what irispie does after writes)"""
        sp = self.obs_span()
        if sp is None:
            self.lo = self.hi = None
            self.freq = None
        else:
            self.lo, self.hi = sp
        return self

    def has_edge_missing_rows(self):
        sp = self.obs_span()
        if self.lo is None or self.hi < self.lo:
            return False
        return sp is None or sp[0] > self.lo or sp[1] < self.hi

    def rows(self):
        """[[v0, v1, ...], ...] over the stored span (for messages / specs)"""
        if self.lo is None:
            return []
        return [[self.cells.get((o, v), math.nan) for v in range(self.nv)] for o in range(self.lo, self.hi + 1)]

    def brief(self):
        sp = self.obs_span()
        span = f"{label(self.freq, sp[0])}..{label(self.freq, sp[1])}" if sp and self.freq else "empty"
        return f"<{self.freq} nv={self.nv} {span} n={len(self.cells)} desc={self.desc!r}>"

    __repr__ = brief


def from_rows(freq, lo, rows, desc="", nv=None):
    """series from a start ordinal and rows x variants values (trimmed like a freshly constructed series)"""
    nv = nv if nv is not None else (len(rows[0]) if rows else 1)
    cells = {}
    for i, row in enumerate(rows):
        for v, x in enumerate(row):
            if not _isnan(x):
                cells[(lo + i, v)] = float(x)
    s = SM(freq, nv, desc, lo, lo + len(rows) - 1, cells)
    return s.trim()


def _isnan(x):
    return isinstance(x, float) and x != x


def is_series(x):
    return isinstance(x, SM)


def py_equal(a, b):
    """equality of python value snapshots: same type, ==, NaN == NaN, recursive on containers"""
    if isinstance(a, SM) or isinstance(b, SM):
        return isinstance(a, SM) and isinstance(b, SM) and not series_diff(a, b)
    if isinstance(a, PV):
        a = a.v
    if isinstance(b, PV):
        b = b.v
    if type(a) is not type(b):
        return False
    if isinstance(a, float):
        return a == b or (a != a and b != b)
    if isinstance(a, (list, tuple)):
        return len(a) == len(b) and all(py_equal(x, y) for x, y in zip(a, b))
    if isinstance(a, dict):
        return a.keys() == b.keys() and all(py_equal(a[k], b[k]) for k in a)
    try:
        return bool(a == b)
    except Exception:
        return a is b


def _close(x, y, rtol, atol):
    if x == y:
        return True
    if rtol == 0.0 and atol == 0.0:
        return False
    if math.isinf(x) or math.isinf(y):
        return False
    return abs(x - y) <= atol + rtol * abs(x)


def series_diff(exp, got, limit=4):
    """list of (kind, message) differences between an expected SM and the snapshot of the real series"""
    out = []
    if exp.nv != got.nv:
        out.append(("variants-differ", f"number of variants {got.nv}, expected {exp.nv}"))
        return out
    either = exp.either or {}
    if (exp.cells or got.cells) and exp.cells and got.cells and exp.freq != got.freq:
        out.append(("frequency-differs", f"frequency {got.freq}, expected {exp.freq}"))
        return out
    n = 0
    for k in set(exp.cells) | set(got.cells) | set(either):
        e = exp.cells.get(k)
        g = got.cells.get(k)
        if k in either and e is None:
            ok = g is None or _close(either[k], g, exp.rtol, exp.atol)
        elif e is None or g is None:
            ok = e is None and g is None
        else:
            ok = _close(e, g, exp.rtol, exp.atol)
        if not ok:
            n += 1
            if n <= limit:
                f = exp.freq or got.freq
                kind = "value-lost" if g is None else ("value-appeared" if e is None else "values-differ")
                out.append((kind, f"{label(f, k[0]) if f else k[0]} variant {k[1]}: got {g}, expected {e}"))
    if n > limit:
        out.append(("values-differ", f"... {n} cells differ in total"))
    if exp.check_desc and (exp.cells or got.cells) and exp.desc != got.desc:
        out.append(("description-differs", f"description {got.desc!r}, expected {exp.desc!r}"))
    return out


def match_alternatives(alts, got):
    """got: SM | PV | ABSENT.  Returns [] if some alternative matches, else the differences w.r.t. the first one"""
    first = None
    for alt in alts:
        if alt is ANY:
            return []
        if alt is ABSENT or got is ABSENT:
            d = [] if (alt is ABSENT and got is ABSENT) else [("name-set-differs", "item missing" if got is ABSENT else "unexpected item")]
        elif isinstance(alt, SM):
            d = series_diff(alt, got) if isinstance(got, SM) else [("type-differs", f"expected a series, got {got!r}")]
        else:
            d = [] if (not isinstance(got, SM) and py_equal(alt, got)) else [("value-differs", f"expected {alt!r}, got {got!r}")]
        if not d:
            return []
        if first is None:
            first = d
    return first or [("no-alternative", "empty expectation")]


def box_diff(expected, got):
    """expected: {name: [alternatives]}, got: {name: SM|PV}.  -> [(name, kind, message)]"""
    out = []
    for name in list(expected) + [n for n in got if n not in expected]:
        alts = expected.get(name, [ABSENT])
        g = got.get(name, ABSENT)
        for kind, msg in match_alternatives(alts, g):
            out.append((name, kind, msg))
    return out


def exact(box):
    """expectation that accepts exactly this box"""
    return {n: [v] for n, v in box.items()}


# ------------------------------------------------------------------------------
# name selections (documented semantics of source_names / target_names / strict_names)
# ------------------------------------------------------------------------------


def resolve(context_names, source, target, strict):
    """-> (pairs [(source, target)], missing source names, hazard or None)
    source: None | str | list | callable(name)->bool ; target: None | str | list | callable(name)->name"""
    ctx = list(context_names)
    if source is None:
        src = list(ctx)
    elif isinstance(source, str):
        src = [source]
    elif callable(source):
        src = [n for n in ctx if source(n)]
    else:
        src = list(source)
    if target is None:
        tgt = list(src)
    elif isinstance(target, str):
        tgt = [target]
    elif callable(target):
        tgt = [target(n) for n in src]
    else:
        tgt = list(target)
    hazard = None
    if len(tgt) != len(src):
        hazard = "source-target-length-mismatch"
    if len(set(src)) != len(src):
        hazard = "duplicate-source-names"
    pairs = list(zip(src, tgt))
    ctxset = set(ctx)
    missing = [s for s, _ in pairs if s not in ctxset]
    present = [(s, t) for s, t in pairs if s in ctxset]
    if missing and strict:
        # with strict names the missing ones take part in whatever the method does before it fails
        hazard = hazard or _collisions(pairs, ctxset, in_place=True) or "strict-names-with-missing-name"
    return present, missing, hazard


# ------------------------------------------------------------------------------
# series semantics
# ------------------------------------------------------------------------------


def _broadcast(cells, nv_from, nv_to):
    if nv_from == nv_to:
        return dict(cells)
    if nv_from != 1:
        raise Hazard("cannot-broadcast-variants")
    return {(o, v): x for (o, _), x in cells.items() for v in range(nv_to)}


def superimpose(base, top, desc):
    """`top` laid over `base` on the whole stored span of `top` (missing in-sample values of `top` included).
    Cells of `base` inside top's stored span but outside top's first..last observation are undecided ('either')."""
    if base.nv != top.nv and 1 not in (base.nv, top.nv):
        raise Hazard("cannot-broadcast-variants")
    if base.cells and top.cells and base.freq != top.freq:
        raise Hazard("mixed-frequencies")
    nv = max(base.nv, top.nv)
    b = _broadcast(base.cells, base.nv, nv)
    t = _broadcast(top.cells, top.nv, nv)
    res = dict(b)
    either = {}
    if top.lo is not None and top.hi >= top.lo:
        osp = top.obs_span()
        for (o, v), x in b.items():
            if top.lo <= o <= top.hi:
                del res[(o, v)]
                if osp is None or not (osp[0] <= o <= osp[1]):
                    either[(o, v)] = x
    res.update(t)
    new = SM(base.freq if base.cells else (top.freq if top.cells else (base.freq or top.freq)), nv, desc, None, None, res)
    new.trim()
    if not new.cells:
        new.freq = base.freq or top.freq
    new.either = either or None
    return new


def overlay(self_s, other_s):
    return superimpose(self_s, other_s, self_s.desc)


def underlay(self_s, other_s):
    return superimpose(other_s, self_s, self_s.desc)


def clip(s, lo, hi):
    """keep the observations within [lo, hi] (None: unbounded); the stored span becomes the clipped span"""
    new = SM(s.freq, s.nv, s.desc, s.lo, s.hi, {k: x for k, x in s.cells.items() if (lo is None or k[0] >= lo) and (hi is None or k[0] <= hi)})
    if s.lo is not None:
        new.lo = s.lo if lo is None else max(s.lo, lo)
        new.hi = s.hi if hi is None else min(s.hi, hi)
    return new


def hstack(a, b):
    if a.cells and b.cells and a.freq != b.freq:
        raise Hazard("mixed-frequencies")
    # a stored start of another frequency (even with no observations) is outside what is decided
    if a.freq and b.freq and a.freq != b.freq:
        raise Hazard("mixed-frequencies")
    cells = dict(a.cells)
    cells.update({(o, v + a.nv): x for (o, v), x in b.cells.items()})
    new = SM(a.freq or b.freq, a.nv + b.nv, "", None, None, cells)
    new.trim()
    new.check_desc = False
    return new


# ------------------------------------------------------------------------------
# databox operations: expectation for the box after the call (and for the returned box)
# ------------------------------------------------------------------------------


def expect_lay(kind, box, other, names=None, strict=False):
    """Databox.overlay / underlay. -> (expectation for self, hazard or None, selected names)"""
    func = overlay if kind == "overlay" else underlay
    hazard = None
    if names is None:
        sel = [n for n in box if is_series(box[n]) and n in other and is_series(other[n])]
    else:
        if isinstance(names, str):
            raise Hazard("names-given-as-string")
        sel = list(dict.fromkeys(names))
        missing = [n for n in sel if n not in box or n not in other]
        if missing and strict:
            hazard = "strict-names-with-missing-name"
        sel = [n for n in sel if n in box and n in other]
    exp = exact(box)
    for n in sel:
        a, b = box[n], other[n]
        if not (is_series(a) and is_series(b)):
            hazard = hazard or "selected-name-is-not-a-series"
            exp[n] = [ANY]
            continue
        if a.freq is not None and b.freq is not None and a.freq != b.freq:
            exp[n] = [a]                # different frequencies: nothing to lay
            continue
        try:
            laid = func(a, b)
        except Hazard as h:
            if str(h) == "mixed-frequencies":
                exp[n] = [a]
            else:
                hazard = hazard or str(h)
                exp[n] = [ANY]
            continue
        if a.freq is None or b.freq is None:
            # a series without a start period on either side: the databox method leaves self alone (frequencies
            # differ), the series method would lay it (filling an empty self / broadcasting variants): both accepted
            exp[n] = [a, laid]
        elif a.freq != b.freq:
            exp[n] = [a]
        else:
            exp[n] = [laid]
    return exp, hazard, sel


def expect_clip(box, freq, lo, hi):
    exp = {}
    touched = []
    for n, x in box.items():
        if is_series(x) and x.freq is not None and x.freq == freq and (lo is not None or hi is not None):
            exp[n] = [clip(x, lo, hi)]
            touched.append(n)
        else:
            exp[n] = [x]
    return exp, touched


def expect_prepend(box, other, freq, end):
    """other clipped at `end` (series of that frequency), then underlaid beneath self"""
    clipped = {}
    for n, x in other.items():
        clipped[n] = clip(x, None, end) if (is_series(x) and x.freq == freq) else x
    exp, hazard, sel = expect_lay("underlay", box, clipped, None, False)
    for n in sel:
        a = box[n]
        b = other[n]
        if is_series(a) and is_series(b) and b.freq != freq and b.freq is not None:
            # series of a frequency other than that of the end period: "up to the end date" decides nothing
            exp[n] = [a] + [alt for alt in exp[n] if alt is not a]
    return exp, hazard, sel


def _collisions(pairs, box_names, in_place):
    src = [s for s, _ in pairs]
    tgt = [t for _, t in pairs]
    if len(set(tgt)) != len(tgt):
        return "duplicate-target-names"
    srcset = set(src)
    for s, t in pairs:
        if t != s and t in srcset:
            return "target-collides-with-another-source"
        if in_place and t != s and t in box_names and t not in srcset:
            return "target-collides-with-unselected-name"
    return None


def expect_copy(box, source, target, strict, shallow=False):
    """-> (expectation for the returned box, hazard)"""
    if source is None and target is None:
        return exact(box), None
    pairs, missing, hazard = resolve(box.keys(), source, target, strict)
    if hazard is None or hazard in ("strict-names-with-missing-name",):
        hz = _collisions(pairs, set(box), in_place=False)
        if shallow and hz == "target-collides-with-another-source":
            hz = None   # built from pairs at once, no sequential renaming involved
        hazard = hz or hazard
    return {t: [box[s]] for s, t in pairs}, hazard


def expect_rename(box, source, target, strict):
    pairs, missing, hazard = resolve(box.keys(), source, target, strict)
    hz = _collisions(pairs, set(box), in_place=True)
    hazard = hz or hazard
    ren = dict(pairs)
    return {ren.get(n, n): [x] for n, x in box.items()}, hazard


def expect_remove(box, names, strict):
    if names is None:
        return exact(box), None
    pairs, missing, hazard = resolve(box.keys(), names, None, strict)
    gone = {s for s, _ in pairs}
    return {n: [x] for n, x in box.items() if n not in gone}, hazard


def expect_keep(box, names, strict):
    if names is None:
        return exact(box), None
    pairs, missing, hazard = resolve(box.keys(), names, None, strict)
    kept = {s for s, _ in pairs}
    return {n: [x] for n, x in box.items() if n in kept}, hazard


def _stack_py(a, b):
    a = a.v if isinstance(a, PV) else a
    b = b.v if isinstance(b, PV) else b
    la = list(a) if isinstance(a, list) else [a]
    lb = list(b) if isinstance(b, list) else [b]
    return PV(la + lb)


def expect_merge(box, others, strategy):
    """-> (expectation, hazard, duplicate keys met)"""
    cur = dict(box)
    flex = {}
    hazard = None
    dups = []
    for other in others:
        for key, value in other.items():
            if key not in cur:
                cur[key] = value
                continue
            dups.append(key)
            if strategy in ("stack", "hstack"):
                if is_series(value):
                    if is_series(cur[key]):
                        try:
                            cur[key] = hstack(cur[key], value)
                        except Hazard as h:
                            hazard = hazard or str(h)
                            flex[key] = True
                    else:
                        hazard = hazard or "stack-series-onto-non-series"
                        flex[key] = True
                else:
                    cur[key] = _stack_py(cur[key], value)
            elif strategy == "replace":
                cur[key] = value
            else:
                pass  # discard / silent / warning / error / critical keep the existing value
    if dups and strategy in ("error", "critical"):
        hazard = hazard or "duplicate-keys-reported-as-error"
    exp = {n: ([ANY] if n in flex else [x]) for n, x in cur.items()}
    return exp, hazard, dups


def expect_or(box, other):
    cur = dict(box)
    cur.update(other)
    return exact(cur)


# ------------------------------------------------------------------------------
# CSV round trip
# ------------------------------------------------------------------------------


def expect_csv(box, names_sel, span, frequency_span, desc_w, desc_r, round_, start_period_only):
    """Expectation for Databox.from_csv_file(file written by to_csv_file of `box`).
    names_sel: None | str | list | predicate ; span: None | (freq, [ordinals]) ;
    frequency_span: None | {freq: [ordinals] | Ellipsis | None} ; round_: int | None
    -> (expectation, hazard)"""
    hazard = None
    if desc_w != desc_r:
        raise Hazard("description_row-differs-between-write-and-read")
    pairs, _, hz = resolve(box.keys(), names_sel, None, False)
    if hz:
        raise Hazard(hz)
    selected = [s for s, _ in pairs]
    if span is not None:
        fspan = {span[0]: list(span[1])}
    elif frequency_span is not None:
        fspan = {f: v for f, v in frequency_span.items() if v is not None}
    else:
        fspan = {f: Ellipsis for f in FREQS}
    exp = {}
    # a file that holds at least one dated observation can be read back; the series without a start period sit in a block of
    # their own (names, variants, descriptions, no dates) and come back as empty series under their names
    dated = span is None and frequency_span is None and any(
        is_series(box[n_]) and box[n_].freq is not None and box[n_].cells for n_ in selected)
    for n in selected:
        x = box[n]
        if not is_series(x):
            continue                        # non-series items are not exported
        if x.freq is None:
            exp[n] = [_csv_series(x, None, desc_w, round_)] if dated else [ABSENT, _csv_series(x, None, desc_w, round_)]
            hazard = "series-without-start-period-exported"
            continue
        if x.freq not in fspan:
            continue
        periods = fspan[x.freq]
        if periods is not Ellipsis:
            periods = list(periods)
            if len(set(periods)) != len(periods):
                raise Hazard("duplicate-periods-in-span")
            if start_period_only and periods and periods != list(range(periods[0], periods[0] + len(periods))):
                raise Hazard("start_period_only-with-non-consecutive-periods")
        s = _csv_series(x, periods, desc_w, round_)
        exp[n] = [s] if s.cells else [s, ABSENT]
    return exp, hazard


def _csv_series(x, periods, with_desc, round_):
    if periods is None or periods is Ellipsis:
        cells = dict(x.cells)
    else:
        pset = set(periods)
        cells = {k: v for k, v in x.cells.items() if k[0] in pset}
    s = SM(x.freq, x.nv, x.desc if with_desc else "", None, None, cells)
    s.trim()
    if not s.cells:
        s.freq = x.freq
    if round_ is not None:
        s.atol = 0.5 * 10.0 ** (-round_) * (1 + 1e-9)
        s.rtol = 8 * 2.220446049250313e-16
    return s


# ------------------------------------------------------------------------------
# Dataslate round trip
# ------------------------------------------------------------------------------


def slate_array(box, names, freq, ords, num_variants, fallbacks=None, overwrites=None, clip_to_base=False, base_columns=()):
    """-> {name: [[value per period] per variant]}, {name: [[cell class per period] per variant]}
    cell classes: 'input', 'missing', 'fallback', 'overwrite', 'clipped'"""
    if len(set(names)) != len(names):
        raise Hazard("duplicate-names")
    if not names:
        raise Hazard("no-names")
    if list(ords) != list(range(ords[0], ords[0] + len(ords))):
        raise Hazard("span-not-consecutive")
    if clip_to_base and not base_columns:
        raise Hazard("clip-to-base-span-without-base-columns")
    nonbase = (set(range(len(ords))) - set(base_columns)) if clip_to_base else set()
    values, classes = {}, {}
    for n in names:
        vs, cs = [], []
        for v in range(num_variants):
            row = [math.nan] * len(ords)
            cl = ["missing"] * len(ords)
            if n in box:
                x = box[n]
                if is_series(x):
                    if x.freq is not None and x.freq != freq:
                        raise Hazard("series-of-another-frequency")
                    vv = min(v, x.nv - 1)
                    for i, o in enumerate(ords):
                        val = x.cells.get((o, vv))
                        if val is not None:
                            row[i] = val
                            cl[i] = "input"
                else:
                    val = _pick_variant(x.v if isinstance(x, PV) else x, v)
                    row = [val] * len(ords)
                    cl = ["missing" if val != val else "input"] * len(ords)
            for i in nonbase:
                if cl[i] == "input":
                    row[i] = math.nan
                    cl[i] = "clipped"
            if fallbacks and n in fallbacks:
                fb = _pick_variant(fallbacks[n], v)
                for i in range(len(ords)):
                    if row[i] != row[i]:
                        row[i] = fb
                        cl[i] = "fallback"
            if overwrites and n in overwrites:
                ow = _pick_variant(overwrites[n], v)
                row = [ow] * len(ords)
                cl = ["overwrite"] * len(ords)
            vs.append(row)
            cs.append(cl)
        values[n] = vs
        classes[n] = cs
    return values, classes


def _pick_variant(value, v):
    """a number applies to every variant; a list gives one value per variant, the last one repeated"""
    if isinstance(value, bool) or value is None:
        raise Hazard("non-numeric-item")
    if isinstance(value, (int, float)):
        return float(value)
    if isinstance(value, (list, tuple)):
        if not value:
            raise Hazard("empty-list-item")
        x = value[min(v, len(value) - 1)]
        if isinstance(x, bool) or not isinstance(x, (int, float)):
            raise Hazard("non-numeric-item")
        return float(x)
    raise Hazard("non-numeric-item")


def slate_series(freq, ords, rows_by_variant, desc=""):
    cells = {}
    for v, row in enumerate(rows_by_variant):
        for i, x in enumerate(row):
            if x == x:
                cells[(ords[i], v)] = x
    s = SM(freq, len(rows_by_variant), desc, None, None, cells)
    s.trim()
    if not s.cells:
        s.freq = freq
    s.check_desc = False
    return s
