"""
Independent graph oracles: bipartite perfect matching, block-order validity.
No irispie imports.
"""

from __future__ import annotations

import itertools
import numpy as np


def max_matching_size(im) -> int:
    """Augmenting-path (Kuhn) maximum bipartite matching on a boolean matrix"""
    im = np.asarray(im, dtype=bool)
    nr, nc = im.shape
    match_col = [-1] * nc
    adj = [np.flatnonzero(im[r]).tolist() for r in range(nr)]

    def try_row(r, seen):
        for c in adj[r]:
            if seen[c]:
                continue
            seen[c] = True
            if match_col[c] < 0 or try_row(match_col[c], seen):
                match_col[c] = r
                return True
        return False

    size = 0
    for r in range(nr):
        if try_row(r, [False] * nc):
            size += 1
    return size


def has_perfect_matching(im) -> bool:
    im = np.asarray(im, dtype=bool)
    if im.shape[0] != im.shape[1]:
        return False
    if im.shape[0] == 0:
        return True
    if not im.any(axis=1).all() or not im.any(axis=0).all():
        return False
    return max_matching_size(im) == im.shape[0]


def has_perfect_matching_bruteforce(im) -> bool:
    """Permanent > 0 by enumeration of permutations (n <= 6); cross-check of the matcher"""
    im = np.asarray(im, dtype=bool)
    n = im.shape[0]
    return any(all(im[i, p[i]] for i in range(n)) for p in itertools.permutations(range(n)))


def check_blocks(im, eids, qids, blocks):
    """Return list of (key, message) problems of a block decomposition.
    blocks: sequence of (block_eids, block_qids) in solution order."""
    im = np.asarray(im, dtype=bool)
    eids = list(eids)
    qids = list(qids)
    problems = []
    row_of = {e: i for i, e in enumerate(eids)}
    col_of = {q: j for j, q in enumerate(qids)}
    all_e = [e for be, _ in blocks for e in be]
    all_q = [q for _, bq in blocks for q in bq]
    if sorted(all_e) != sorted(eids):
        problems.append(("blocks:eids-not-partitioned", f"block eids {sorted(all_e)} vs eids {sorted(eids)}"))
    if sorted(all_q) != sorted(qids):
        problems.append(("blocks:qids-not-partitioned", f"block qids {sorted(all_q)} vs qids {sorted(qids)}"))
    if problems:
        return problems
    done_q = set()
    for k, (be, bq) in enumerate(blocks):
        if len(be) != len(bq):
            problems.append(("blocks:not-square", f"block {k} has {len(be)} equations and {len(bq)} quantities"))
            continue
        if len(be) == 0:
            problems.append(("blocks:empty-block", f"block {k} is empty"))
            continue
        rows = [row_of[e] for e in be]
        cols = [col_of[q] for q in bq]
        allowed = done_q | set(bq)
        used = {qids[j] for r in rows for j in np.flatnonzero(im[r])}
        if not used <= allowed:
            problems.append((
                "blocks:uses-later-quantity",
                f"block {k} equations {list(be)} involve quantities {sorted(used - allowed)} of later blocks",
            ))
        sub = im[np.ix_(rows, cols)]
        if not has_perfect_matching(sub):
            problems.append(("blocks:structurally-singular", f"block {k} ({list(be)} x {list(bq)}) has no perfect matching"))
        done_q |= set(bq)
    return problems
