"""
C12 reference model of aggregate / disaggregate on plain dicts

A series is  {ordinal: [value per variant]}  (ordinals of c12_calendar), NaN == absent.
No irispie import. Everything is recomputed from calendar membership and python/numpy arithmetic.
"""

from __future__ import annotations

import math

import numpy as np

from . import c12_calendar as cal

BUILTIN_METHODS = ("mean", "sum", "prod", "first", "last", "min", "max", "geometric_mean")

# named callables the workload may pass as `method` (a JSON case stores the name)
CALLABLES = {
    "call:size": lambda v: float(np.size(v)),
    "call:median": lambda v: float(np.median(v)),
    "call:sumsq": lambda v: float(np.sum(np.asarray(v, dtype=float) ** 2)),
    "call:nansum": lambda v: float(np.nansum(v)),
    "call:range": lambda v: float(np.max(v) - np.min(v)),
    "call:wsum": lambda v: float(np.dot(np.asarray(v, dtype=float), np.arange(1, np.size(v) + 1))),
}


class OutsideQuantifier(Exception):
    """the request itself is not something the property quantifies over (e.g. select index out of range)"""


def isnan(x):
    return isinstance(x, float) and math.isnan(x) or (isinstance(x, np.floating) and np.isnan(x))


def get(data, o, j):
    row = data.get(o)
    if row is None:
        return math.nan
    return float(row[j])


def span_of(data):
    """first and last ordinal with at least one non-missing value, or None"""
    obs = [o for o, row in data.items() if any(not math.isnan(float(v)) for v in row)]
    if not obs:
        return None
    return min(obs), max(obs)


# ------------------------------------------------------------------------------
# aggregate
# ------------------------------------------------------------------------------


def _apply(method, v):
    """returns ("eq", value, scale) | ("any",)   -- value NaN means 'must be missing'"""
    if len(v) == 0:
        return ("eq", math.nan, 0.0)
    has_nan = any(math.isnan(x) for x in v)
    if method in ("mean", "sum", "prod"):
        if has_nan:
            return ("eq", math.nan, 0.0)
        if method == "sum":
            return ("eq", math.fsum(v), math.fsum(abs(x) for x in v))
        if method == "mean":
            return ("eq", math.fsum(v) / len(v), math.fsum(abs(x) for x in v) / len(v))
        p = math.prod(v)
        return ("eq", p, abs(p) * len(v))
    if method == "first":
        return ("eq", v[0], 0.0)
    if method == "last":
        return ("eq", v[-1], 0.0)
    if method in ("min", "max"):
        if has_nan:
            return ("any",)     # order comparisons with NaN: nothing is promised
        return ("eq", min(v) if method == "min" else max(v), 0.0)
    if method == "geometric_mean":
        if has_nan or any(x <= 0 for x in v):
            return ("any",)
        g = math.exp(math.fsum(math.log(x) for x in v) / len(v))
        return ("eq", g, g * 4)
    if callable(method) or method in CALLABLES:
        func = method if callable(method) else CALLABLES[method]
        if has_nan:
            # what a user function is handed for an incomplete group (NaN padding or only the existing
            # observations) is not stated anywhere: decided on complete groups and under discard_missing only
            return ("any",)
        try:
            with np.errstate(all="ignore"):
                val = float(func(np.array(v, dtype=float)))
        except Exception:
            return ("any", "callable-raised")
        return ("eq", val, abs(val) + math.fsum(abs(x) for x in v if not math.isnan(x)) * max(1, len(v)))
    raise OutsideQuantifier(f"method {method!r}")


def aggregate_expected(src_f, data, nv, tgt_f, method, discard_missing=False, select=None):
    """{low ordinal: [expectation per variant]} for every low period that contains at least one
    period of the series' span; low periods outside are not listed (they must be missing under the
    built-in methods, and are not decided for callables)."""
    sp = span_of(data)
    if sp is None:
        raise OutsideQuantifier("empty series")
    lo = cal.parent(tgt_f, src_f, sp[0])
    hi = cal.parent(tgt_f, src_f, sp[1])
    out = {}
    for p in range(lo, hi + 1):
        mem = cal.members(tgt_f, p, src_f)
        row = []
        for j in range(nv):
            v = [get(data, h, j) for h in mem]
            if select is not None:
                try:
                    v = [v[int(i)] for i in select]
                except IndexError:
                    raise OutsideQuantifier("select index outside a group")
            if discard_missing:
                v = [x for x in v if not math.isnan(x)]
            row.append(_apply(method, v))
        out[p] = row
    return out


def group_profile(src_f, data, nv, tgt_f):
    """structural description of the missing-value pattern relative to the groups:
    (edge_partial, interior_partial, whole_missing, all_complete)"""
    sp = span_of(data)
    lo = cal.parent(tgt_f, src_f, sp[0])
    hi = cal.parent(tgt_f, src_f, sp[1])
    edge = interior = whole = False
    n_complete = 0
    for p in range(lo, hi + 1):
        mem = cal.members(tgt_f, p, src_f)
        for j in range(nv):
            miss = [math.isnan(get(data, h, j)) for h in mem]
            if all(miss):
                whole = True
            elif any(miss):
                outside = any(m and not (sp[0] <= h <= sp[1]) for m, h in zip(miss, mem))
                inside = any(m and (sp[0] <= h <= sp[1]) for m, h in zip(miss, mem))
                edge = edge or outside
                interior = interior or inside
            else:
                n_complete += 1
    return (edge, interior, whole, n_complete > 0)


def close(a, b, scale=0.0, rtol=1e-11):
    if math.isnan(a) or math.isnan(b):
        return math.isnan(a) and math.isnan(b)
    if math.isinf(a) or math.isinf(b):
        return a == b
    return abs(a - b) <= rtol * max(abs(a), abs(b), scale) + 1e-300


def compare_aggregate(expected, result, nv, undecided_outside):
    """result: {low ordinal: [values]} as read from the real series. Returns list of messages."""
    problems = []
    for p, row in expected.items():
        for j, e in enumerate(row):
            if e[0] == "any":
                continue
            got = get(result, p, j)
            if not close(e[1], got, e[2]):
                problems.append((p, j, e[1], got))
    if not undecided_outside:
        for p, row in result.items():
            if p in expected:
                continue
            for j in range(nv):
                if not math.isnan(float(row[j])):
                    problems.append((p, j, math.nan, float(row[j])))
    return problems


# ------------------------------------------------------------------------------
# disaggregate (flat / first / middle / last)
# ------------------------------------------------------------------------------


def admissible_positions(method, k):
    if method == "flat":
        return None
    if method == "first":
        return (0,)
    if method == "last":
        return (k - 1,)
    if method == "middle":
        return (k // 2,) if k % 2 else (k // 2 - 1, k // 2)
    raise OutsideQuantifier(f"method {method!r}")


def compare_disaggregate(low_f, data, nv, high_f, method, result):
    """Every low period of the span (interior missing rows included) against the values found at its
    member periods in `result`; everything outside the members must be missing. Values are moved,
    never computed, hence exact comparison. Returns list of (low ordinal, variant, text)."""
    sp = span_of(data)
    if sp is None:
        raise OutsideQuantifier("empty series")
    problems = []
    covered = set()
    for p in range(sp[0], sp[1] + 1):
        mem = cal.members(low_f, p, high_f)
        covered.update(mem)
        k = len(mem)
        pos = admissible_positions(method, k)
        for j in range(nv):
            v = get(data, p, j)
            got = [get(result, h, j) for h in mem]
            if pos is None:
                bad = [i for i, g in enumerate(got) if not _same(g, v)]
                if bad:
                    problems.append((p, j, f"flat: member #{bad[0]} of {k} holds {got[bad[0]]!r}, expected {v!r}"))
                continue
            filled = [i for i, g in enumerate(got) if not math.isnan(g)]
            if math.isnan(v):
                if filled:
                    problems.append((p, j, f"{method}: low value missing but member #{filled[0]} holds {got[filled[0]]!r}"))
                continue
            if len(filled) != 1 or filled[0] not in pos or got[filled[0]] != v:
                problems.append((p, j, f"{method}: value {v!r} expected at member index {pos} of {k}, found non-missing at {filled[:4]} "
                                       f"({[got[i] for i in filled[:4]]})"))
    for h, row in result.items():
        if h in covered:
            continue
        for j in range(nv):
            if not math.isnan(float(row[j])):
                problems.append((None, j, f"value {float(row[j])!r} at high period {cal.label_from_ordinal(high_f, h)} outside every low period of the input"))
                break
    return problems


def _same(a, b):
    if math.isnan(a) or math.isnan(b):
        return math.isnan(a) and math.isnan(b)
    return a == b


def maps_equal(a, b, nv, rtol=0.0, only=None, scale=0.0):
    """cell-by-cell equality of two dict series (NaN == absent); `only`: restrict to these (ordinal, variant) cells.
    Returns the first few differing cells."""
    diffs = []
    for o in sorted(set(a) | set(b)):
        for j in range(nv):
            if only is not None and (o, j) not in only:
                continue
            x, y = get(a, o, j), get(b, o, j)
            if rtol == 0.0:
                ok = _same(x, y)
            else:
                ok = close(x, y, scale, rtol)
            if not ok:
                diffs.append((o, j, x, y))
                if len(diffs) >= 4:
                    return diffs
    return diffs
