"""
Independent numpy oracle for C18 (reduced-form VAR): no irispie imports.

Model convention (layout of the matrices reported by RedVAR.get_system_matrices):

    y_t = A_1 y_{t-1} + ... + A_p y_{t-p} + B x_t + c + u_t ,      A = [A_1 ... A_p]   (n x n*p)

All data arrays are (variables x periods); the first `order` columns are the presample of the
estimation / simulation span, column `order + j` is the j-th period of the span.
"""

from __future__ import annotations

import numpy as np

EPS = float(np.finfo(float).eps)
COND_LIMIT = 1e4          # certificate: regressor matrices with a larger 2-norm condition number are not judged


# ------------------------------------------------------------------------------
# Regression set-up
# ------------------------------------------------------------------------------


def stack(Y, X, order, intercept):
    """Left-hand side Y0 (n x Tb), regressors Z (k x Tb), rows of Z = [y_{t-1}; ...; y_{t-p}; x_t; 1],
    and the complete-row indicator (a period is fitted iff y_t, y_{t-1..t-p}, x_t are all finite)."""
    Y = np.asarray(Y, dtype=float)
    n, TL = Y.shape
    X = np.asarray(X, dtype=float).reshape(-1, TL) if np.size(X) else np.zeros((0, TL))
    m = X.shape[0]
    Tb = TL - order
    k = n * order + m + (1 if intercept else 0)
    Y0 = np.full((n, Tb), np.nan)
    Z = np.full((k, Tb), np.nan)
    where = np.zeros(Tb, dtype=bool)
    for j in range(Tb):
        t = order + j
        col = []
        for lag in range(1, order + 1):
            col.extend(Y[:, t - lag])
        col.extend(X[:, t])
        if intercept:
            col.append(1.0)
        Y0[:, j] = Y[:, t]
        Z[:, j] = col
        where[j] = bool(np.all(np.isfinite(Y0[:, j])) and np.all(np.isfinite(Z[:, j])))
    return Y0, Z, where


def data_std(Y0f, Zf, n, order, m, intercept):
    """Scale of each endogenous variable used by Minnesota dummies: std (1/T) of the residuals of y on [x; 1]"""
    XK = Zf[n * order:, :]
    if XK.shape[0]:
        g = np.linalg.lstsq(XK.T, Y0f.T, rcond=None)[0].T
        R = Y0f - g @ XK
    else:
        R = Y0f
    return np.sqrt(np.mean(R * R, axis=1))


def prior_dummies(priors, n, order, m, intercept, y_std):
    """Dummy observations (lhs n x Td, rhs k x Td) of a list of prior specifications
       {"type": "minnesota", "rho": scalar|list, "mu": float, "kappa": float}
          for lag l and variable j one observation: regressor y_j at lag l = mu*s_j*l^kappa, lhs_j = mu*s_j*rho_j (l=1) else 0
       {"type": "mean", "mean": scalar|list, "mu": float}
          (only with an intercept) one observation: lhs = mu*mean, every lag = mu*mean, constant = mu
    """
    k = n * order + m + (1 if intercept else 0)
    y_std = np.broadcast_to(np.asarray(y_std, dtype=float), (n,))
    L, R = [], []
    for p in priors:
        if p["type"] == "minnesota":
            rho = np.broadcast_to(np.asarray(p["rho"], dtype=float), (n,))
            for lag in range(1, order + 1):
                for j in range(n):
                    l = np.zeros(n)
                    r = np.zeros(k)
                    r[(lag - 1) * n + j] = p["mu"] * y_std[j] * float(lag) ** p["kappa"]
                    if lag == 1:
                        l[j] = p["mu"] * y_std[j] * rho[j]
                    L.append(l)
                    R.append(r)
        elif p["type"] == "mean":
            if not intercept:
                continue
            mean = np.broadcast_to(np.asarray(p["mean"], dtype=float), (n,))
            l = p["mu"] * mean
            r = np.zeros(k)
            for lag in range(order):
                r[lag * n:(lag + 1) * n] = p["mu"] * mean
            r[-1] = p["mu"]
            L.append(np.array(l, dtype=float))
            R.append(r)
        else:
            raise ValueError(p["type"])
    if not L:
        return np.zeros((n, 0)), np.zeros((k, 0))
    return np.array(L).T, np.array(R).T


def ols(Y0, Z):
    """Least-squares coefficients by numpy.linalg.lstsq (SVD), with rank and condition number of Z"""
    beta_t, _, rank, sv = np.linalg.lstsq(Z.T, Y0.T, rcond=None)
    cond = float(sv[0] / sv[-1]) if sv.size and sv[-1] > 0 else float("inf")
    return beta_t.T, int(rank), cond


def coef_tol(cond):
    """irispie solves the normal equations, whose error grows with cond^2"""
    return max(1e-9, 200 * EPS * cond * cond)


def split_beta(beta, n, order, m, intercept):
    A = beta[:, :n * order]
    B = beta[:, n * order:n * order + m]
    c = beta[:, -1] if intercept else None
    return A, B, c


def join_beta(A, B, c, n, order, m, intercept):
    parts = [np.asarray(A, dtype=float).reshape(n, n * order), np.asarray(B, dtype=float).reshape(n, m)]
    if intercept:
        parts.append(np.asarray(c, dtype=float).reshape(n, 1))
    return np.hstack(parts)


# ------------------------------------------------------------------------------
# The estimation postcondition
# ------------------------------------------------------------------------------


def check_estimate(Y, X, order, intercept, dof, priors, A, B, c, cov, U_stored, truth=None):
    """
    Y (n x TL), X (m x TL): input data on presample+span; A, B, c, cov: reported system; U_stored (n x TL):
    residual series of the output databox on presample+span; truth: optional (A, B, c) of a noise-free generator.
    Returns (status, problems, info): status "ok" | "inconclusive:<why>"; problems = [(key, message)].
    """
    problems = []
    info = {}
    Y = np.asarray(Y, dtype=float)
    n = Y.shape[0]
    Y0, Z, where = stack(Y, X, order, intercept)
    m = Z.shape[0] - n * order - (1 if intercept else 0)
    k = Z.shape[0]
    T_fit = int(where.sum())
    info.update(T_fit=T_fit, k=k, n_missing_rows=int((~where).sum()))
    if T_fit == 0:
        return "inconclusive:no-complete-period", problems, info
    Y0f, Zf = Y0[:, where], Z[:, where]

    # --- shapes
    A = np.asarray(A, dtype=float)
    B = np.asarray(B, dtype=float) if B is not None else np.zeros((n, 0))
    if A.shape != (n, n * order) or B.reshape(n, -1).shape != (n, m) or (intercept and (c is None or np.size(c) != n)) \
            or ((not intercept) and c is not None and np.size(c) and np.any(np.asarray(c) != 0)):
        problems.append(("estimate:system-shape", f"A{A.shape} B{np.shape(B)} c{np.shape(c) if c is not None else None} "
                                                  f"for n={n} order={order} exog={m} intercept={intercept}"))
        return "ok", problems, info
    beta = join_beta(A, B, c, n, order, m, intercept)
    if not np.all(np.isfinite(beta)):
        problems.append(("estimate:coefficients-not-finite", "reported coefficients contain NaN/inf although complete periods exist"))
        return "ok", problems, info

    # --- candidate augmented regressions (the scale of Minnesota dummies is not documented: unit or data std)
    candidates = []
    if priors:
        has_minn = any(p["type"] == "minnesota" for p in priors)
        scalings = [("unit", np.ones(n))]
        if has_minn:
            scalings.append(("data_std", data_std(Y0f, Zf, n, order, m, intercept)))
        for name, s in scalings:
            Ld, Rd = prior_dummies(priors, n, order, m, intercept, s)
            candidates.append((name, np.hstack([Y0f, Ld]), np.hstack([Zf, Rd]), Ld, Rd))
    else:
        candidates.append(("none", Y0f, Zf, np.zeros((n, 0)), np.zeros((k, 0))))

    verdicts = []
    for name, Ya, Za, Ld, Rd in candidates:
        if Za.shape[1] < k:
            verdicts.append((name, "inconclusive:fewer-observations-than-regressors", None))
            continue
        ref, rank, cond = ols(Ya, Za)
        if rank < k or not np.isfinite(cond) or cond > COND_LIMIT:
            verdicts.append((name, "inconclusive:ill-conditioned-regressors", cond))
            continue
        tol = coef_tol(cond)
        err_beta = float(np.max(np.abs(beta - ref)) / (1.0 + np.max(np.abs(ref))))
        # normal equations with the residuals implied by the reported coefficients (data + dummies)
        Ua = Ya - beta @ Za
        ne = Ua @ Za.T
        scale_ne = np.outer(np.linalg.norm(Ya, axis=1) + 1.0, np.linalg.norm(Za, axis=1) + 1.0)
        err_ne = float(np.max(np.abs(ne) / scale_ne))
        verdicts.append((name, "ok", dict(cond=cond, tol=tol, err_beta=err_beta, err_ne=err_ne, Ld=Ld, Rd=Rd)))

    oks = [v for v in verdicts if v[1] == "ok"]
    if not oks:
        return verdicts[0][1], problems, info
    best = min(oks, key=lambda v: v[2]["err_beta"])
    d = best[2]
    info.update(cond=d["cond"], err_beta=d["err_beta"], err_ne=d["err_ne"], dummy_scaling=best[0], tol=d["tol"])
    if d["err_beta"] > d["tol"]:
        problems.append(("estimate:coefficients-not-least-squares",
                         f"max |[A B c] - lstsq| / (1+|lstsq|) = {d['err_beta']:.3e} > {d['tol']:.1e} on {T_fit} complete periods "
                         f"(+{d['Ld'].shape[1]} dummy observations, cond={d['cond']:.1f})"))
    if d["err_ne"] > d["tol"]:
        problems.append(("estimate:normal-equations-violated",
                         f"max scaled |U Z'| = {d['err_ne']:.3e} > {d['tol']:.1e} (cond={d['cond']:.1f})"))

    # --- fitted + stored residual == data on every fitted period
    U_stored = np.asarray(U_stored, dtype=float)
    Uf = U_stored[:, order:][:, where]
    scale_y = 1.0 + float(np.max(np.abs(Y0f)))
    if not np.all(np.isfinite(Uf)):
        problems.append(("estimate:residual-missing-on-fitted-period",
                         f"{int((~np.isfinite(Uf)).sum())} stored residuals are NaN on periods with complete data"))
    else:
        err_id = float(np.max(np.abs(beta @ Zf + Uf - Y0f)) / scale_y)
        info["err_identity"] = err_id
        if err_id > 1e-9 * max(1.0, float(np.max(np.abs(beta)))):
            problems.append(("estimate:fitted-plus-residual-not-data",
                             f"max |A y(-1..-p) + B x + c + u - y| / (1+|y|) = {err_id:.3e} on fitted periods"))
        # --- residual covariance
        cov = np.asarray(cov, dtype=float)
        if dof and T_fit - k <= 0:
            info["cov_denominator"] = "inconclusive:nonpositive-dof"
        elif cov.shape != (n, n) or not np.all(np.isfinite(cov)):
            problems.append(("estimate:cov-residuals-shape-or-nan", f"cov_residuals shape {cov.shape}"))
        else:
            S = Uf @ Uf.T
            scale_s = float(np.max(np.abs(np.diag(S)))) + 1e-300
            denoms = {}
            if dof:
                for label, kk in (("k=exog+intercept", m + (1 if intercept else 0)), ("k=all-regressors", k)):
                    if T_fit - kk > 0:
                        denoms[label] = T_fit - kk
            else:
                denoms["T_fit"] = T_fit
            errs = {label: float(np.max(np.abs(cov * dd - S)) / scale_s) for label, dd in denoms.items()}
            if priors and d["Ld"].shape[1]:
                # with dummy observations the convention (dummy residuals in or out) is not documented
                Ud = d["Ld"] - beta @ d["Rd"]
                S2 = S + Ud @ Ud.T
                for label, dd in list(denoms.items()):
                    errs[label + "+dummies"] = float(np.max(np.abs(cov * (dd + Ud.shape[1]) - S2)) / (float(np.max(np.abs(np.diag(S2)))) + 1e-300))
            if not errs:
                info["cov_denominator"] = "inconclusive:nonpositive-dof"
            else:
                label = min(errs, key=errs.get)
                info["cov_denominator"] = label
                info["err_cov"] = errs[label]
                if errs[label] > 1e-9:
                    problems.append(("estimate:cov-residuals-not-second-moment",
                                     f"cov_residuals*d != U U' for every documented d "
                                     f"({', '.join(f'{a}: {b:.2e}' for a, b in errs.items())}); dof_correction={dof}, T_fit={T_fit}"))
                if float(np.max(np.abs(cov - cov.T))) > 1e-12 * (1 + float(np.max(np.abs(cov)))):
                    problems.append(("estimate:cov-residuals-not-symmetric", "cov_residuals is not symmetric"))

    # --- noise-free data return the generating VAR
    if truth is not None and not priors:
        tb = join_beta(truth[0], truth[1], truth[2] if intercept else None, n, order, m, intercept)
        err_true = float(np.max(np.abs(beta - tb)) / (1.0 + np.max(np.abs(tb))))
        info["err_truth"] = err_true
        if err_true > max(d["tol"], 1e-9) * 10:
            problems.append(("estimate:noise-free-var-not-recovered",
                             f"max |estimate - generating VAR| / (1+|.|) = {err_true:.3e} (cond={d['cond']:.1f})"))
    return "ok", problems, info


# ------------------------------------------------------------------------------
# Companion form: mean, eigenvalues, autocovariances
# ------------------------------------------------------------------------------


def companion(A, n, order):
    T = np.zeros((n * order, n * order))
    T[:n, :] = np.asarray(A, dtype=float).reshape(n, n * order)
    for i in range(n * (order - 1)):
        T[n + i, i] = 1.0
    return T


def mean(A, c, n, order):
    """(I - sum A_i)^{-1} c ; returns (mean, cond)"""
    A = np.asarray(A, dtype=float).reshape(n, n * order)
    S = np.zeros((n, n))
    for i in range(order):
        S += A[:, i * n:(i + 1) * n]
    M = np.eye(n) - S
    cc = np.zeros(n) if c is None else np.asarray(c, dtype=float).reshape(n)
    cond = float(np.linalg.cond(M))
    if not np.isfinite(cond) or cond > 1e10:
        return None, cond
    return np.linalg.solve(M, cc), cond


def eigenvalues(A, n, order):
    return np.linalg.eigvals(companion(A, n, order))


def multiset_distance(a, b):
    """max distance under the optimal one-to-one matching of two equally long complex lists"""
    a = np.asarray(a, dtype=complex).ravel()
    b = np.asarray(b, dtype=complex).ravel()
    if a.size != b.size:
        return float("inf")
    if a.size == 0:
        return 0.0
    from scipy.optimize import linear_sum_assignment
    D = np.abs(a[:, None] - b[None, :])
    # bottleneck matching approximated by minimising the sum of squared distances (exact for well separated sets)
    r, cidx = linear_sum_assignment(D ** 2)
    return float(np.max(D[r, cidx]))


def eig_tolerance(ev):
    """eigenvalues of (nearly) defective matrices move like eps^(1/multiplicity)"""
    ev = np.asarray(ev, dtype=complex)
    if ev.size < 2:
        return 1e-9
    D = np.abs(ev[:, None] - ev[None, :]) + np.eye(ev.size) * 1e9
    sep = float(D.min())
    return 1e-8 if sep > 1e-3 else 1e-3


def acov(A, cov, n, order, up_to_order):
    """Gamma_i = E[y_t y_{t-i}'], i = 0..up_to_order, from the companion Lyapunov equation solved by Kronecker products.
    Returns (list of matrices, cond of the Kronecker system, spectral radius) or (None, cond, radius)."""
    T = companion(A, n, order)
    N = n * order
    radius = float(np.max(np.abs(np.linalg.eigvals(T)))) if N else 0.0
    Sigma = np.zeros((N, N))
    Sigma[:n, :n] = np.asarray(cov, dtype=float)
    K = np.eye(N * N) - np.kron(T, T)
    cond = float(np.linalg.cond(K))
    if radius >= 0.999 or not np.isfinite(cond) or cond > 1e9:
        return None, cond, radius
    Om = np.linalg.solve(K, Sigma.reshape(-1, order="F")).reshape(N, N, order="F")
    Om = (Om + Om.T) / 2
    out = [Om[:n, :n].copy()]
    P = Om
    for _ in range(up_to_order):
        P = T @ P
        out.append(P[:n, :n].copy())
    return out, cond, radius


# ------------------------------------------------------------------------------
# Simulation
# ------------------------------------------------------------------------------


def simulate(A, B, c, Y, X, U, order):
    """Direct recursion on presample+span arrays; Y supplies only the presample (first `order` columns).
    Returns n x TL array (presample copied)."""
    Y = np.asarray(Y, dtype=float)
    n, TL = Y.shape
    A = np.asarray(A, dtype=float).reshape(n, n * order)
    out = np.full((n, TL), np.nan)
    out[:, :order] = Y[:, :order]
    for t in range(order, TL):
        v = np.zeros(n) if c is None else np.asarray(c, dtype=float).reshape(n).copy()
        for lag in range(1, order + 1):
            v = v + A[:, (lag - 1) * n:lag * n] @ out[:, t - lag]
        if X is not None and np.size(X):
            v = v + np.asarray(B, dtype=float).reshape(n, -1) @ np.asarray(X, dtype=float).reshape(-1, TL)[:, t]
        if U is not None:
            v = v + np.asarray(U, dtype=float)[:, t]
        out[:, t] = v
    return out


def power_norm(A, n, order, length):
    """max_j ||T^j||_2, j = 1..length, T the companion matrix: amplification of rounding errors along a simulation"""
    T = companion(A, n, order)
    P = np.eye(n * order)
    worst = 1.0
    for _ in range(int(length)):
        P = T @ P
        nrm = float(np.linalg.norm(P, 2)) if np.all(np.isfinite(P)) else float("inf")
        worst = max(worst, nrm)
        if not np.isfinite(worst) or worst > 1e12:
            return float("inf")
    return worst


def emulate_known_simulate_defects(A, B, c, Y, X, U, order, exog_over_whole_state=False):
    """Emulation of specific wrong mechanisms, used ONLY to name a violation precisely (never to accept an output):
    (1) the companion state before the first simulated period is filled with y(t0-1), y(t0), y(t0+1), ... (shifts 0,+1,..)
        instead of y(t0-1), y(t0-2), ...; afterwards the correct companion recursion runs;
    (2) exog_over_whole_state (only meaningful for n == 1): the n-vector B x_t is added to every element of the
        companion state instead of its first n elements."""
    Y = np.asarray(Y, dtype=float)
    n, TL = Y.shape
    if order - 1 + order - 1 >= TL:
        return None
    A = np.asarray(A, dtype=float).reshape(n, n * order)
    T = companion(A, n, order)
    xi = np.concatenate([Y[:, order - 1 + s] for s in range(order)])
    out = np.full((n, TL), np.nan)
    out[:, :order] = Y[:, :order]
    for t in range(order, TL):
        xi = T @ xi
        add = np.zeros(n) if c is None else np.asarray(c, dtype=float).reshape(n).copy()
        if U is not None:
            add = add + np.asarray(U, dtype=float)[:, t]
        xi[:n] = xi[:n] + add
        if X is not None and np.size(X):
            bx = np.asarray(B, dtype=float).reshape(n, -1) @ np.asarray(X, dtype=float).reshape(-1, TL)[:, t]
            if exog_over_whole_state and n == 1:
                xi = xi + bx[0]
            else:
                xi[:n] = xi[:n] + bx
        out[:, t] = xi[:n]
    return out


# ------------------------------------------------------------------------------
# Generators (ground truth for the noise-free direction)
# ------------------------------------------------------------------------------


def draw_stable_var(rng, n, order, m, radius):
    """Random VAR whose companion spectral radius equals `radius`"""
    A = rng.standard_normal((n, n * order)) / np.sqrt(n * order)
    if rng.random() < 0.5:
        for j in range(n):
            A[j, j] += rng.uniform(0.3, 0.9)
    r = float(np.max(np.abs(np.linalg.eigvals(companion(A, n, order)))))
    s = radius / r if r > 0 else 1.0
    for lag in range(1, order + 1):
        A[:, (lag - 1) * n:lag * n] *= s ** lag
    B = rng.standard_normal((n, m))
    c = rng.standard_normal(n) * rng.choice([0.1, 1.0, 5.0])
    return A, B, c


def generate(rng, A, B, c, order, TL, X, noise_std):
    n = A.shape[0]
    Y = np.zeros((n, TL))
    mu, cond = mean(A, c, n, order)
    base = mu if mu is not None and cond < 1e6 and X.shape[0] == 0 else np.zeros(n)
    Y[:, :order] = base[:, None] + rng.standard_normal((n, order)) * rng.choice([1.0, 3.0])
    U = rng.standard_normal((n, TL)) * noise_std
    if noise_std > 0 and n > 1:
        L = np.eye(n) + 0.5 * np.tril(rng.standard_normal((n, n)), -1)
        U = L @ U
    U[:, :order] = 0.0
    out = simulate(A, B, c, Y, X, U if noise_std > 0 else None, order)
    return out
