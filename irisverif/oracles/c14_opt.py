"""
Independent reference computations for C14 (trend filters). numpy only, no irispie imports.

HP problem on a span of T periods (the standard Hodrick-Prescott convention: lambda multiplies the roughness term,
which is what the default table 100 / 400 / 1600 of the docstring presupposes):

    min_x   sum_{t in Omega} (y_t - x_t)^2  +  lam * sum_{t=3..T} (x_t - 2 x_{t-1} + x_{t-2})^2
    s.t.    x_t = L_t            (t in Omega_L)
            x_t - x_{t-1} = C_t  (t in Omega_C, t >= 2)

Solved here as a stacked linear LEAST-SQUARES problem in the null space of the constraints (numpy.linalg.lstsq, i.e.
an SVD-based solve of  [diag(obs); sqrt(lam) D2] (x_p + Z w) ~ [obs*y; 0]) -- a different mechanism from the bordered
normal equations the implementation uses.

l1 trend filter of order k (Kim, Koh, Boyd, Gorinevsky):  min_x 1/2 ||y - x||^2 + lam * ||D_k x||_1 ; optimality
(KKT) conditions are VERIFIED on a candidate (trend, gap); nothing is solved.
"""

from __future__ import annotations

import numpy as np

EPS = float(np.finfo(float).eps)


def second_difference_matrix(T):
    return np.diff(np.eye(T), 2, axis=0) if T >= 3 else np.zeros((0, T))


def constraint_rows(T, level, change):
    """level: {index: value}; change: {index>=1: value} -> (A, b)"""
    rows, rhs = [], []
    for j in sorted(level):
        r = np.zeros(T)
        r[j] = 1.0
        rows.append(r)
        rhs.append(level[j])
    for j in sorted(change):
        r = np.zeros(T)
        r[j] = 1.0
        r[j - 1] = -1.0
        rows.append(r)
        rhs.append(change[j])
    if not rows:
        return np.zeros((0, T)), np.zeros(0)
    return np.array(rows), np.array(rhs, dtype=float)


class HPResult:
    __slots__ = ("trend", "cond", "ok", "why", "A", "b", "Z", "H", "rhs")


def hp_solve(y, lam, level=None, change=None):
    """y: 1-d array with NaN for missing. Returns HPResult; ok False when the problem is not (numerically) well posed."""
    y = np.asarray(y, dtype=float).ravel()
    T = y.size
    level = dict(level or {})
    change = dict(change or {})
    res = HPResult()
    res.ok = False
    res.why = ""
    res.trend = None
    res.cond = float("inf")
    obs = (~np.isnan(y)).astype(float)
    y0 = np.where(np.isnan(y), 0.0, y)
    D = second_difference_matrix(T)
    A, b = constraint_rows(T, level, change)
    res.A, res.b = A, b
    res.H = lam * (D.T @ D) + np.diag(obs)
    res.rhs = obs * y0
    m = A.shape[0]
    if m:
        U, s, Vt = np.linalg.svd(A, full_matrices=True)
        rank = int((s > 1e-10 * max(s.max(), 1.0)).sum())
        if rank < m:
            res.why = "redundant-constraints"
            return res
        Z = Vt[rank:].T
        xp = np.linalg.lstsq(A, b, rcond=None)[0]
    else:
        Z = np.eye(T)
        xp = np.zeros(T)
    res.Z = Z
    if Z.shape[1] == 0:
        res.trend = xp
        res.cond = 1.0
        res.ok = True
        return res
    M = np.vstack([np.diag(obs), np.sqrt(lam) * D])
    target = np.concatenate([res.rhs, np.zeros(D.shape[0])])
    MZ = M @ Z
    sv = np.linalg.svd(MZ, compute_uv=False)
    if sv.size < Z.shape[1] or sv.min() <= 1e-13 * max(sv.max(), 1e-300):
        res.why = "not-unique(too few observations/constraints)"
        return res
    # condition number of the bordered matrix the implementation would factor (certificate only)
    K = np.block([[res.H, A.T], [A, np.zeros((m, m))]]) if m else res.H
    with np.errstate(all="ignore"):
        res.cond = float(np.linalg.cond(K))
    w = np.linalg.lstsq(MZ, target - M @ xp, rcond=None)[0]
    res.trend = xp + Z @ w
    res.ok = bool(np.all(np.isfinite(res.trend)))
    return res


def hp_projected_gradient(res, x):
    """|Z'(Hx - rhs)|_inf and the magnitude it has to be small against"""
    g = res.H @ x - res.rhs
    pg = res.Z.T @ g if res.Z.shape[1] else np.zeros(1)
    ref = float(np.abs(res.H).sum(axis=1).max() * max(np.abs(x).max(), 1e-300) + np.abs(res.rhs).max())
    return float(np.abs(pg).max()), ref


def hp_objective(res, x, y, lam):
    y = np.asarray(y, dtype=float)
    obs = ~np.isnan(y)
    D = second_difference_matrix(len(y))
    return float(((y[obs] - x[obs]) ** 2).sum() + lam * ((D @ x) ** 2).sum())


# ------------------------------------------------------------------------------
# l1 trend filter
# ------------------------------------------------------------------------------

SOLVER_ABS_TOL = 2e-6   # the QP solver (daqp) works with an ABSOLUTE primal tolerance of 1e-6


def l1_kkt(y, order, lam, trend, gap):
    """Returns list of (key, message); empty when the KKT conditions of
       min 1/2||y-x||^2 + lam ||D_order x||_1 hold at x = trend with gap = y - trend."""
    y = np.asarray(y, dtype=float).ravel()
    trend = np.asarray(trend, dtype=float).ravel()
    gap = np.asarray(gap, dtype=float).ravel()
    n = y.size
    out = []
    scale = max(float(np.abs(y).max()), 1e-300)
    if trend.size != n or gap.size != n or not (np.all(np.isfinite(trend)) and np.all(np.isfinite(gap))):
        return [("lonf:output-shape-or-nonfinite", f"n={n} trend {trend.size} gap {gap.size}")], {}
    err = float(np.abs(trend + gap - y).max())
    if err > 1e-9 * scale:
        out.append(("lonf:trend-plus-gap-not-data", f"max |trend+gap-data| = {err:.3g} (scale {scale:.3g})"))
    D = np.diff(np.eye(n), order, axis=0)
    gap_used = y - trend
    nu = np.linalg.lstsq(D.T, gap_used, rcond=None)[0]
    resid = float(np.abs(D.T @ nu - gap_used).max())
    if resid > 1e-7 * scale + SOLVER_ABS_TOL:
        out.append(("lonf:kkt:gap-not-in-range-of-Dt", f"residual {resid:.3g} (scale {scale:.3g}): data-trend is not D'nu"))
    slack = 1e-5 * lam + SOLVER_ABS_TOL
    over = float(np.abs(nu).max() - lam) if nu.size else 0.0
    if over > slack:
        out.append(("lonf:kkt:dual-bound", f"max|nu| - lambda = {over:.3g} > {slack:.3g} (lambda {lam:.6g})"))
    dx = D @ trend
    thr = 1e-5 * scale + 1e-4
    act = np.abs(dx) > thr
    info = {"n_active": int(act.sum()), "n_dual": int(nu.size)}
    if act.any():
        dev = np.abs(nu[act] - lam * np.sign(dx[act]))
        if float(dev.max()) > slack:
            i = int(np.flatnonzero(act)[int(np.argmax(dev))])
            out.append(("lonf:kkt:complementarity",
                        f"(D trend)[{i}] = {dx[i]:.3g} is non-zero but nu[{i}] = {nu[i]:.6g} != sign*lambda = {lam * np.sign(dx[i]):.6g}"))
    return out, info
