"""
c10_smodel -- reference model of an irispie time Series (property C10)

A series is a plain map      cells : dict[(period ordinal, variant)] -> float
with  NaN == absent (never stored), a frequency tag, the number of variants, and the
*reported* span (lo, hi) as a pair of period ordinals (None, None when the series has
no start).  Period ordinals are counted from first principles:

    Y  year                       H  2*year + (half-1)       Q  4*year + (quarter-1)
    M  12*year + (month-1)        D  datetime.date.toordinal  I  the integer itself

No irispie import.  Every operation below implements the DOCUMENTED semantics (doc
strings of irispie.Series / property C10 statement) directly on the dict with plain
Python and numpy; numpy/scipy element functions are the trusted base (the very same
ufuncs irispie applies), the alignment / addressing / trimming / span logic is not
shared with irispie.

The reported span matters for the few operations whose documented meaning refers to
"the span of the series" (overlay/underlay "from the start to the end period regardless
of missing in-sample values", fill_missing "the time span of the input series",
soy/eopy shifts, `x[...] = v`, scalar `**`, nan-statistics).  The property promises an
exact span only after writes and binary arithmetic; after every other operation the
history driver re-reads the reported span from the real object (set_span) -- it is an
observable, not something the model predicts.

Result conventions: operations that create or change a series return a `Check`
describing how the real object is to be compared: exact or with a relative tolerance,
an optional per-cell magnitude scale (cancellation in sums), optional per-cell sets of
acceptable alternatives (ties), optional cells that are not decided.
"""

from __future__ import annotations

import datetime as _dt
import math

import numpy as np
import scipy.special as _sps
import scipy.stats as _sst

FREQS = ("Y", "H", "Q", "M", "D", "I")
PER_YEAR = {"Y": 1, "H": 2, "Q": 4, "M": 12}
NAN = float("nan")


# ------------------------------------------------------------------------------
# calendar helpers on ordinals
# ------------------------------------------------------------------------------


def ordinal_from_parts(freq, year, seg=1, day=1):
    """regular: (year, segment); D: (year, month, day); I: (number,)"""
    if freq in PER_YEAR:
        return int(year) * PER_YEAR[freq] + int(seg) - 1
    if freq == "D":
        return _dt.date(int(year), int(seg), int(day)).toordinal()
    return int(year)


def parts_from_ordinal(freq, t):
    if freq in PER_YEAR:
        f = PER_YEAR[freq]
        return (t // f, t % f + 1)
    if freq == "D":
        d = _dt.date.fromordinal(t)
        return (d.year, d.month, d.day)
    return (t,)


def start_of_year(freq, t):
    if freq in PER_YEAR:
        f = PER_YEAR[freq]
        return (t // f) * f
    if freq == "D":
        return _dt.date(_dt.date.fromordinal(t).year, 1, 1).toordinal()
    raise ValueError("start of year undefined for integer frequency")


def end_of_previous_year(freq, t):
    return start_of_year(freq, t) - 1


def periods_per_year(freq):
    return PER_YEAR.get(freq)


# ------------------------------------------------------------------------------
# the model
# ------------------------------------------------------------------------------


def _fsum(xs):
    xs = list(xs)
    try:
        return math.fsum(xs)
    except (ValueError, OverflowError):   # inf - inf, overflow
        with np.errstate(all="ignore"):
            return float(np.sum(np.array(xs, dtype=float)))


class SModel:
    __slots__ = ("freq", "nv", "cells", "lo", "hi")

    def __init__(self, freq, nv=1, cells=None, lo=None, hi=None):
        self.freq = freq
        self.nv = int(nv)
        self.cells = dict(cells) if cells else {}
        self.lo = lo
        self.hi = hi

    # -- basic queries
    def copy(self):
        return SModel(self.freq, self.nv, self.cells, self.lo, self.hi)

    def has_start(self):
        return self.lo is not None

    def num_rows(self):
        return 0 if self.lo is None else max(self.hi - self.lo + 1, 0)

    def cell_span(self):
        if not self.cells:
            return None
        ts = [t for t, _ in self.cells]
        return min(ts), max(ts)

    def span_ords(self):
        return [] if self.lo is None else list(range(self.lo, self.hi + 1))

    def get(self, t, v):
        return self.cells.get((t, v), NAN)

    def row(self, t):
        return [self.cells.get((t, v), NAN) for v in range(self.nv)]

    def dense(self, lo, hi, nv=None):
        """(hi-lo+1) x nv array, NaN where absent"""
        n = max(hi - lo + 1, 0)
        nv = self.nv if nv is None else nv
        out = np.full((n, nv), np.nan)
        for (t, v), x in self.cells.items():
            if lo <= t <= hi and v < nv:
                out[t - lo, v] = x
        return out

    def has_interior_missing(self):
        cs = self.cell_span()
        if cs is None:
            return False
        return len(self.cells) < (cs[1] - cs[0] + 1) * self.nv

    # -- span handling
    def trim_span(self):
        """reported span := span of the non-missing cells (none => no start)"""
        cs = self.cell_span()
        self.lo, self.hi = (None, None) if cs is None else cs

    def set_span(self, lo, hi):
        self.lo, self.hi = lo, hi

    def covered(self):
        """every non-missing cell inside the reported span?"""
        cs = self.cell_span()
        if cs is None:
            return True
        return self.lo is not None and self.lo <= cs[0] and cs[1] <= self.hi

    def is_trimmed(self):
        cs = self.cell_span()
        if cs is None:
            return self.lo is None
        return (self.lo, self.hi) == cs

    def put(self, t, v, x):
        x = float(x)
        if x != x:
            self.cells.pop((t, v), None)
        else:
            self.cells[(t, v)] = x


class Check:
    """How to compare the real outcome with the model outcome"""
    __slots__ = ("rtol", "scale", "alt", "undecided", "span_exact")

    def __init__(self, rtol=0.0, scale=None, alt=None, undecided=None, span_exact=False):
        self.rtol = rtol            # 0.0 => exact
        self.scale = scale          # dict cell -> magnitude for the tolerance (or None)
        self.alt = alt              # dict cell -> tuple of acceptable values (NaN allowed)
        self.undecided = undecided  # set of cells not asserted
        self.span_exact = span_exact  # property promises trimmed span (writes, arithmetic)


EXACT = 0.0
ARITH = 1e-12


def from_dense(freq, lo, arr, nv=None):
    arr = np.asarray(arr, dtype=float)
    if arr.ndim == 1:
        arr = arr.reshape(-1, 1)
    m = SModel(freq, arr.shape[1] if nv is None else nv)
    for i in range(arr.shape[0]):
        for v in range(arr.shape[1]):
            x = float(arr[i, v])
            if x == x:
                m.cells[(lo + i, v)] = x
    return m


def src_variant(v, nv_src):
    """1 <-> n broadcasting: a single variant serves every requested variant"""
    return v if nv_src > 1 else 0


# ------------------------------------------------------------------------------
# constructors
# ------------------------------------------------------------------------------


def m_from_start_rows(freq, start, rows, nv, trim=True):
    """Series(start=, values=) / from_start_and_array: row i is period start+i.
    rows: list of lists (n x nv). Trimmed unless trim=False (then the span is start..start+n-1)."""
    m = SModel(freq, nv)
    for i, r in enumerate(rows):
        for v in range(nv):
            m.put(start + i, v, r[v])
    if trim:
        m.trim_span()
    else:
        m.set_span(start, start + len(rows) - 1)
    return m


def m_empty(freq, nv):
    return SModel(freq, nv)


# ------------------------------------------------------------------------------
# reads
# ------------------------------------------------------------------------------


def m_read(m, ords, vids):
    """x[periods, variants]: len(periods) x len(variants) array; last written value or NaN"""
    out = np.full((len(ords), len(vids)), np.nan)
    for i, t in enumerate(ords):
        for k, v in enumerate(vids):
            out[i, k] = m.get(t, v)
    return out


def m_recreate(m, ords, vids):
    """x(periods, variants): a new series holding exactly the addressed cells"""
    new = SModel(m.freq, len(vids))
    for t in ords:
        for k, v in enumerate(vids):
            new.put(t, k, m.get(t, v))
    new.trim_span()
    return new


# ------------------------------------------------------------------------------
# writes
# ------------------------------------------------------------------------------


def m_write(m, ords, vids, cols):
    """x[periods, variants] = data.  cols[k][i] is the value for the k-th addressed variant at
    the i-th addressed period (the caller has already expanded scalars / 1<->n broadcasting).
    Exactly the addressed cells change; a NaN written removes the cell; the span is trimmed."""
    for k, v in enumerate(vids):
        for i, t in enumerate(ords):
            m.put(t, v, cols[k][i])
    m.trim_span()
    return Check(EXACT, span_exact=True)


def write_cols_from_series(src, ords, n_vids):
    """data given as another series: its values at the SAME periods (missing => NaN)"""
    return [[src.get(t, src_variant(k, src.nv)) for t in ords] for k in range(n_vids)]


# ------------------------------------------------------------------------------
# time shifts, clip
# ------------------------------------------------------------------------------


def m_shift(m, by):
    """shift(by): new(t) = old(t + by)   (by=-1 is a lag: values move one period forward in time)"""
    m.cells = {(t - by, v): x for (t, v), x in m.cells.items()}
    if m.lo is not None:
        m.lo -= by
        m.hi -= by
    return Check(EXACT)


def m_shift_yoy(m):
    """'yoy': all observations one year back, i.e. new(t) = old(t - periods_per_year)"""
    return m_shift(m, -PER_YEAR[m.freq])


def m_shift_anchor(m, which):
    """'soy': each observation in the span replaced by the start-of-year observation;
    'eopy': by the end-of-previous-year observation"""
    fn = start_of_year if which == "soy" else end_of_previous_year
    old = m.cells
    new = {}
    for t in m.span_ords():
        a = fn(m.freq, t)
        for v in range(m.nv):
            x = old.get((a, v))
            if x is not None:
                new[(t, v)] = x
    m.cells = new
    return Check(EXACT)


def m_clip(m, a, b):
    """clip(new_start, new_end): nothing outside [new_start, new_end] survives; None keeps that side"""
    m.cells = {(t, v): x for (t, v), x in m.cells.items()
               if (a is None or t >= a) and (b is None or t <= b)}
    return Check(EXACT)


# ------------------------------------------------------------------------------
# overlay / underlay / hstack
# ------------------------------------------------------------------------------


def _broadcast_nv(m, nv):
    if m.nv == nv:
        return
    assert m.nv == 1
    cells = {}
    for (t, _), x in m.cells.items():
        for v in range(nv):
            cells[(t, v)] = x
    m.cells = cells
    m.nv = nv


def m_overlay(m, other):
    """within the reported span of `other` (start..end regardless of in-sample missing values)
    the cells of `other` replace those of `m`, missing ones included; elsewhere `m` is kept"""
    nv = max(m.nv, other.nv)
    _broadcast_nv(m, nv)
    for t in other.span_ords():
        for v in range(nv):
            m.put(t, v, other.get(t, src_variant(v, other.nv)))
    m.trim_span()
    return Check(EXACT)


def m_underlay(m, other):
    """the result is `other`, except within the reported span of `m` where the cells of `m`
    (missing ones included) are superimposed"""
    nv = max(m.nv, other.nv)
    own = m.copy()
    _broadcast_nv(own, nv)
    new = {}
    for (t, v), x in other.cells.items():
        if other.nv == nv:
            new[(t, v)] = x
        else:
            for w in range(nv):
                new[(t, w)] = x
    for t in own.span_ords():
        for v in range(nv):
            x = own.cells.get((t, v))
            if x is None:
                new.pop((t, v), None)
            else:
                new[(t, v)] = x
    m.cells = new
    m.nv = nv
    m.trim_span()
    return Check(EXACT)


def m_hstack(ms):
    """variants of all operands side by side, aligned on periods"""
    new = SModel(ms[0].freq, sum(x.nv for x in ms))
    off = 0
    for x in ms:
        for (t, v), val in x.cells.items():
            new.cells[(t, off + v)] = val
        off += x.nv
    new.trim_span()
    return new, Check(EXACT)


# ------------------------------------------------------------------------------
# arithmetic
# ------------------------------------------------------------------------------

import operator as _op

BINOPS = {
    "add": _op.add, "sub": _op.sub, "mul": _op.mul, "truediv": _op.truediv,
    "pow": _op.pow, "floordiv": _op.floordiv, "mod": _op.mod,
}
CMPOPS = {"gt": _op.gt, "lt": _op.lt, "ge": _op.ge, "le": _op.le, "eq": _op.eq, "ne": _op.ne}


def _cells_from_array(new, lo, arr):
    for i in range(arr.shape[0]):
        for v in range(arr.shape[1]):
            x = float(arr[i, v])
            if x == x:
                new.cells[(lo + i, v)] = x


def m_binop(a, b, fname):
    """a (op) b, period by period after aligning on calendar periods; either operand may be a
    Python scalar. numpy float semantics are mirrored (1**nan == 1, nan**0 == 1, x/0 == inf).
    Series (op) Series: evaluated on the union of the operands' periods; Series (op) scalar: on the
    reported span of the series. Result trimmed."""
    func = BINOPS[fname]
    a_is, b_is = isinstance(a, SModel), isinstance(b, SModel)
    with np.errstate(all="ignore"):
        if a_is and b_is:
            spans = [s for s in (a.cell_span(), b.cell_span()) if s is not None]
            nv = max(a.nv, b.nv)
            new = SModel(a.freq, nv)
            if spans:
                lo = min(s[0] for s in spans)
                hi = max(s[1] for s in spans)
                arr = func(a.dense(lo, hi), b.dense(lo, hi))
                _cells_from_array(new, lo, arr)
        else:
            s = a if a_is else b
            new = SModel(s.freq, s.nv)
            if s.lo is not None and s.hi >= s.lo:
                d = s.dense(s.lo, s.hi)
                arr = func(d, b) if a_is else func(a, d)
                _cells_from_array(new, s.lo, np.asarray(arr, dtype=float))
    new.trim_span()
    return new, Check(ARITH, span_exact=True)


def m_compare_where_both_present(a, b, fname):
    """comparison operators: asserted only where both operands are non-missing: dict cell -> bool"""
    func = CMPOPS[fname]
    out = {}
    if isinstance(b, SModel):
        nv = max(a.nv, b.nv)
        for t in {t for t, _ in a.cells} & {t for t, _ in b.cells}:
            for v in range(nv):
                x = a.cells.get((t, src_variant(v, a.nv)))
                y = b.cells.get((t, src_variant(v, b.nv)))
                if x is not None and y is not None:
                    out[(t, v)] = bool(func(x, y))
    else:
        for (t, v), x in a.cells.items():
            out[(t, v)] = bool(func(x, b))
    return out


def m_unary(m, fname, arg=None):
    """-x, +x, abs(x), round(x, n): cell by cell, span unchanged"""
    new = m.copy()
    if fname == "neg":
        new.cells = {k: -x for k, x in m.cells.items()}
    elif fname == "pos":
        pass
    elif fname == "abs":
        new.cells = {k: abs(x) for k, x in m.cells.items()}
    elif fname == "round":
        new.cells = {k: float(np.round(x, arg or 0)) for k, x in m.cells.items()}
    else:
        raise ValueError(fname)
    return new, Check(EXACT if fname != "round" else ARITH)


# ------------------------------------------------------------------------------
# element-wise functions
# ------------------------------------------------------------------------------

ELEMENTWISE_ONE = {
    "log": np.log, "log2": np.log2, "log10": np.log10, "log1p": np.log1p,
    "exp": np.exp, "exp2": np.exp2, "expm1": np.expm1, "sqrt": np.sqrt,
    "abs": np.abs, "sign": np.sign, "sin": np.sin, "cos": np.cos, "tan": np.tan,
    "asin": np.arcsin, "acos": np.arccos, "atan": np.arctan,
    "expit": _sps.expit, "logistic": _sps.expit,
    "erf": _sps.erf, "erfinv": _sps.erfinv, "erfc": _sps.erfc, "erfcinv": _sps.erfcinv,
    "normal_cdf": _sst.norm.cdf, "normal_pdf": _sst.norm.pdf,
}
ELEMENTWISE_TWO = {"round": np.round, "maximum": np.maximum, "minimum": np.minimum}
ELEMENTWISE = {**ELEMENTWISE_ONE, **ELEMENTWISE_TWO}


def m_map_cells(m, func):
    """apply an element function to every non-missing cell (all functions used map NaN to NaN)"""
    if not m.cells:
        return
    keys = list(m.cells)
    with np.errstate(all="ignore"):
        vals = np.asarray(func(np.array([m.cells[k] for k in keys], dtype=float)), dtype=float)
    m.cells = {k: float(x) for k, x in zip(keys, vals) if x == x}


def m_elementwise(m, fname, arg=None):
    """x.log(), x.maximum(c), x.round(n) ...: value by value; the span is not re-trimmed"""
    f = ELEMENTWISE[fname]
    if fname in ELEMENTWISE_TWO:
        m_map_cells(m, lambda d: f(d, arg))
    else:
        m_map_cells(m, f)
    return Check(ARITH)


# ------------------------------------------------------------------------------
# statistics across variants (axis=1) and across time (axis=0)
# ------------------------------------------------------------------------------

STAT_NAMES = ("sum", "prod", "mean", "median", "std", "var", "max", "min", "percentile", "quantile")
STAT_ALL = STAT_NAMES + tuple("nan" + n for n in STAT_NAMES)


def _stat_call(fname, arr, q, axis):
    f = getattr(np, fname)
    import warnings
    with np.errstate(all="ignore"), warnings.catch_warnings():
        warnings.simplefilter("ignore")
        if fname.endswith(("percentile", "quantile")):
            return f(arr, q, axis=axis)
        return f(arr, axis=axis)


def m_stat_axis1(m, fname, q=None):
    """statistic across the variants of each period of the reported span -> one variant"""
    new = {}
    scale = {}
    if m.lo is not None and m.hi >= m.lo:
        d = m.dense(m.lo, m.hi)
        r = np.asarray(_stat_call(fname, d, q, 1), dtype=float)
        with np.errstate(all="ignore"):
            mag = np.nanmax(np.abs(np.where(np.isnan(d), 0.0, d)), axis=1)
        for i in range(d.shape[0]):
            x = float(r[i])
            if x == x:
                new[(m.lo + i, 0)] = x
                s = float(mag[i])
                scale[(m.lo + i, 0)] = s * s if fname.endswith("var") else (s ** m.nv if fname.endswith("prod") else s)
    m.cells = new
    m.nv = 1
    return Check(ARITH, scale=scale)


def m_stat_axis0(m, fname, q=None):
    """statistic across the periods of the reported span, one number per variant"""
    d = m.dense(m.lo, m.hi) if m.lo is not None else np.full((0, m.nv), np.nan)
    r = np.asarray(_stat_call(fname, d, q, 0), dtype=float).reshape(-1)
    with np.errstate(all="ignore"):
        mag = np.max(np.abs(np.where(np.isnan(d), 0.0, d)), axis=0) if d.shape[0] else np.zeros(m.nv)
    return [float(x) for x in r], [float(s) for s in mag]


# ------------------------------------------------------------------------------
# moving windows
# ------------------------------------------------------------------------------


def default_window(freq):
    return {"Y": -1, "H": -2, "Q": -4, "M": -12, "D": -365, "I": -4}[freq]


def m_moving(m, fname, window):
    """y_t = sum / mean / prod of x_t, x_{t-1}, ..., x_{t-k+1}, k = -window; missing if any of them is"""
    k = -(window if window is not None else default_window(m.freq))
    new = {}
    scale = {}
    old = m.cells
    ts = sorted({t for t, _ in old})
    for v in range(m.nv):
        for t in ts:
            w = [old.get((t - i, v)) for i in range(k - 1, -1, -1)]
            if any(x is None for x in w):
                continue
            if fname == "mov_sum":
                y = _fsum(w)
                s = _fsum(abs(x) for x in w)
            elif fname in ("mov_avg", "mov_mean"):
                y = _fsum(w) / k
                s = _fsum(abs(x) for x in w) / k
            elif fname == "mov_prod":
                y = 1.0
                for x in w:
                    y *= x
                s = abs(y)
            else:
                raise ValueError(fname)
            if y == y:
                new[(t, v)] = y
                scale[(t, v)] = s
    m.cells = new
    m.trim_span()
    return Check(ARITH, scale=scale)


# ------------------------------------------------------------------------------
# fill_missing
# ------------------------------------------------------------------------------


def m_fill(m, method, arg, lo, hi):
    """fill missing observations within [lo, hi] (None => the reported span), variant by variant.
    constant: the constant; next / previous / nearest: that available observation (within [lo,hi]);
    linear / log_linear: interpolation between the neighbouring observations -- cells before the first
    / after the last observation are NOT decided ("interpolation or extrapolation" is not specified);
    from_series: the value of the other series at the same period. Ties of `nearest` accept either."""
    if lo is None:
        if m.lo is None:
            return Check(EXACT)
        lo, hi = m.lo, m.hi
    alt = {}
    undecided = set()
    rtol = EXACT
    old = dict(m.cells)
    for v in range(m.nv):
        obs = [t for t in range(lo, hi + 1) if (t, v) in old]
        for t in range(lo, hi + 1):
            if (t, v) in old:
                continue
            prev = max((s for s in obs if s < t), default=None)
            nxt = min((s for s in obs if s > t), default=None)
            if method == "constant":
                m.put(t, v, arg)
            elif method == "from_series":
                m.put(t, v, arg.get(t, src_variant(v, arg.nv)))
            elif method == "next":
                if nxt is not None:
                    m.put(t, v, old[(nxt, v)])
            elif method == "previous":
                if prev is not None:
                    m.put(t, v, old[(prev, v)])
            elif method == "nearest":
                if prev is None and nxt is None:
                    continue
                if prev is not None and nxt is not None and (t - prev) == (nxt - t):
                    m.put(t, v, old[(prev, v)])
                    alt[(t, v)] = (old[(prev, v)], old[(nxt, v)])
                elif nxt is None or (prev is not None and (t - prev) < (nxt - t)):
                    m.put(t, v, old[(prev, v)])
                else:
                    m.put(t, v, old[(nxt, v)])
            elif method in ("linear", "log_linear"):
                rtol = ARITH
                if prev is None and nxt is None:
                    continue
                if prev is None or nxt is None:
                    undecided.add((t, v))
                    continue
                a, b = old[(prev, v)], old[(nxt, v)]
                w = (t - prev) / (nxt - prev)
                with np.errstate(all="ignore"):
                    if method == "linear":
                        y = a + (b - a) * w
                    else:
                        la, lb = np.log(a), np.log(b)
                        y = float(np.exp(la + (lb - la) * w))
                m.put(t, v, y)
            else:
                raise ValueError(method)
    m.trim_span()
    return Check(rtol, alt=alt or None, undecided=undecided or None)


# ------------------------------------------------------------------------------
# extrapolate
# ------------------------------------------------------------------------------


def m_extrapolate(m, ar, lo, hi, intercept=0.0, log=False):
    """x_t = rho_1 x_{t-1} + ... + rho_p x_{t-p} + c for t = lo..hi, initial conditions from the
    existing observations (a missing one makes the recursion missing); log=True: recursion in logs.
    A series without start is left alone."""
    if m.lo is None:
        return Check(EXACT)
    scale = {}
    p = len(ar)
    for v in range(m.nv):
        path = {}
        mag = abs(intercept)
        for i in range(1, p + 1):
            x = m.cells.get((lo - i, v), NAN)
            with np.errstate(all="ignore"):
                path[lo - i] = float(np.log(x)) if log else x
        for t in range(lo, hi + 1):
            terms = [ar[i - 1] * path[t - i] for i in range(1, p + 1)]
            y = _fsum(terms) + intercept if all(z == z for z in terms) else NAN
            path[t] = y
            mag = max([mag] + [abs(z) for z in terms if z == z])
            with np.errstate(all="ignore"):
                out = float(np.exp(y)) if log else y
            m.put(t, v, out)
            scale[(t, v)] = abs(out) * max(mag, 1.0) if log else mag
    m.trim_span()
    return Check(1e-9, scale=scale)


# ------------------------------------------------------------------------------
# comparison of an observed map with the model
# ------------------------------------------------------------------------------


def same_value(x, y, rtol, scale=0.0):
    """x observed, y expected (floats, NaN == absent)"""
    xn, yn = x != x, y != y
    if xn or yn:
        return xn and yn
    if x == y:
        return True
    if rtol == 0.0 or math.isinf(x) or math.isinf(y):
        return False
    return abs(x - y) <= rtol * max(abs(x), abs(y), scale)


def diff_cells(observed, model, check):
    """first few differences between an observed cell dict and the model: [(cell, observed, expected)]"""
    bad = []
    rtol = check.rtol if check else 0.0
    scale = (check.scale or {}) if check else {}
    alt = (check.alt or {}) if check else {}
    und = (check.undecided or ()) if check else ()
    for k in set(observed) | set(model.cells):
        if k in und:
            continue
        x = observed.get(k, NAN)
        y = model.cells.get(k, NAN)
        if same_value(x, y, rtol, scale.get(k, 0.0)):
            continue
        if k in alt and any(same_value(x, z, rtol) for z in alt[k]):
            continue
        bad.append((k, x, y))
        if len(bad) >= 4:
            break
    return bad
