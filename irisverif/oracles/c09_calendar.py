"""
Calendar oracle for C09 / C11 -- pure datetime / calendar, no irispie imports.

A period is (f, k):  f in "YHQMDI" (yearly, half-yearly, quarterly, monthly, daily, integer),
k an integer ordinal *of this oracle*:
    regular f (n periods a year):  k = (year-1)*n + (segment-1)     periods elapsed since 0001-01-01
    daily:                         k = datetime.date.toordinal()    (0001-01-01 -> 1)
    integer:                       k = the number itself
Everything else (first/last day, membership of a day, year/segment, keyword shifts, string
formats, conversions between frequencies) is derived from datetime.date / calendar.monthrange.

Supported calendar = what datetime.date supports: years 1..9999.
"""

from __future__ import annotations

import calendar
import datetime as dt
import re

PER_YEAR = {"Y": 1, "H": 2, "Q": 4, "M": 12}
REGULAR = ("Y", "H", "Q", "M")
CALENDAR = ("Y", "H", "Q", "M", "D")
ALL = ("Y", "H", "Q", "M", "D", "I")
# value of the irispie Frequency enum as documented in its docstring table (public constants)
FREQ_VALUE = {"Y": 1, "H": 2, "Q": 4, "M": 12, "D": 365, "I": 0}
LETTER_FROM_VALUE = {v: k for k, v in FREQ_VALUE.items()}
MINYEAR, MAXYEAR = dt.MINYEAR, dt.MAXYEAR
_MIN_ORD = dt.date.min.toordinal()
_MAX_ORD = dt.date.max.toordinal()
ONE_DAY = dt.timedelta(days=1)
POSITIONS = ("start", "middle", "end")


# ------------------------------------------------------------------ identity


def index(f, year, seg=1):
    """oracle ordinal of the period given by calendar year and 1-based segment (daily: day of year)"""
    if f == "I":
        return int(seg)
    if f == "D":
        return dt.date(year, 1, 1).toordinal() + seg - 1
    n = PER_YEAR[f]
    return (year - 1) * n + (seg - 1)


def index_from_ymd(f, y, m, d):
    return index_of_day(f, dt.date(y, m, d))


def in_calendar(f, k):
    if f == "I":
        return True
    if f == "D":
        return _MIN_ORD <= k <= _MAX_ORD
    return 0 <= k < MAXYEAR * PER_YEAR[f]


def n_segments(f, year):
    if f == "D":
        return 366 if calendar.isleap(year) else 365
    return PER_YEAR[f]


def valid_year_segment(f, year, seg):
    if f == "I":
        return True
    return MINYEAR <= year <= MAXYEAR and 1 <= seg <= n_segments(f, year)


def decode(f, k):
    """(year, segment) ; daily: (year, day of year)"""
    if f == "D":
        d = dt.date.fromordinal(k)
        return d.year, d.timetuple().tm_yday
    n = PER_YEAR[f]
    q, r = divmod(k, n)
    return q + 1, r + 1


def first_day(f, k):
    if f == "D":
        return dt.date.fromordinal(k)
    year, seg = decode(f, k)
    months = 12 // PER_YEAR[f]
    return dt.date(year, (seg - 1) * months + 1, 1)


def last_day(f, k):
    if f == "D":
        return dt.date.fromordinal(k)
    year, seg = decode(f, k)
    months = 12 // PER_YEAR[f]
    last_month = seg * months
    return dt.date(year, last_month, calendar.monthrange(year, last_month)[1])


def days_of(f, k):
    d, last = first_day(f, k), last_day(f, k)
    while d <= last:
        yield d
        if d == dt.date.max:
            return
        d += ONE_DAY


def index_of_day(f, day):
    """the f-period that contains the calendar day"""
    if f == "D":
        return day.toordinal()
    n = PER_YEAR[f]
    months = 12 // n
    return (day.year - 1) * n + (day.month - 1) // months


def contains(f, k, day):
    return first_day(f, k) <= day <= last_day(f, k)


def is_leap(year):
    return calendar.isleap(year)


# ------------------------------------------------------------------ keyword shifts (documented in Series temporal docs)


def per_year_value(f):
    """the documented 'annualization factor' a: 1, 2, 4, 12, 365"""
    return FREQ_VALUE[f]


def yoy(f, k):
    return k - FREQ_VALUE[f]


def soy(f, k):
    year, _ = decode(f, k)
    return index(f, year, 1)


def eoy(f, k):
    year, _ = decode(f, k)
    return index(f, year, n_segments(f, year))


def eopy(f, k):
    """last segment of the previous year"""
    return soy(f, k) - 1


def tty(f, k):
    """previous period, None in start-of-year periods"""
    _, seg = decode(f, k)
    return k - 1 if seg > 1 else None


# ------------------------------------------------------------------ structural classes (evidence keys only)


def position_class(f, k):
    """where in the year the period sits -- used for structural evidence keys"""
    if f == "I":
        return "neg" if k < 0 else ("zero" if k == 0 else "pos")
    if not in_calendar(f, k):
        return "outside"
    if f == "D":
        d = dt.date.fromordinal(k)
        if d.month == 1 and d.day == 1:
            return "jan1"
        if d.month == 12 and d.day == 31:
            return "dec31"
        if d.month == 2 and d.day == 29:
            return "feb29"
        if d.month == 2 and d.day == 28:
            return "feb28"
        if d.month == 3 and d.day == 1:
            return "mar1"
        if d.day == 1:
            return "month-start"
        if d.day == calendar.monthrange(d.year, d.month)[1]:
            return "month-end"
        return "mid"
    year, seg = decode(f, k)
    n = PER_YEAR[f]
    if n == 1:
        return "only"
    if seg == 1:
        return "first"
    if seg == n:
        return "last"
    if f == "M" and seg == 2:
        return "feb"
    return "mid"


def year_class(f, k):
    if f == "I":
        return "-"
    if not in_calendar(f, k):
        return "outside"
    y = decode(f, k)[0]
    leap = calendar.isleap(y)
    if y % 100 == 0:
        return "century-leap" if leap else "century-common"
    return "leap" if leap else "common"


def offset_class(f, n):
    if n == 0:
        return "0"
    a = abs(n)
    sign = "+" if n > 0 else "-"
    fv = FREQ_VALUE[f] or 7
    if a == 1:
        c = "1"
    elif a == fv:
        c = "f"
    elif a == fv - 1:
        c = "f-1"
    elif a == fv + 1:
        c = "f+1"
    elif a <= 3:
        c = "2..3"
    elif a in (365, 366):
        c = str(a)
    elif a == 10 ** 4:
        c = "1e4"
    elif a < fv:
        c = "<f"
    elif a < 400:
        c = "<400"
    else:
        c = "big"
    return sign + c


# ------------------------------------------------------------------ spans


def span_indices(start, end, step):
    """start, start+step, ... up to end (inclusive) in the direction of step"""
    if step == 0:
        raise ValueError("zero step")
    out = []
    k = start
    if step > 0:
        while k <= end:
            out.append(k)
            k += step
    else:
        while k >= end:
            out.append(k)
            k += step
    return out


def span_len(start, end, step):
    if step > 0:
        return 0 if end < start else (end - start) // step + 1
    return 0 if end > start else (start - end) // (-step) + 1


# ------------------------------------------------------------------ representations (documented formats)

_SDMX = {
    "Y": re.compile(r"(\d{4})"),
    "H": re.compile(r"(\d{4})-H([12])"),
    "Q": re.compile(r"(\d{4})-Q([1-4])"),
    "M": re.compile(r"(\d{4})-(0[1-9]|1[0-2])"),
    "D": re.compile(r"(\d{4})-(\d{2})-(\d{2})"),
    "I": re.compile(r"\(([-+]?\d+)\)"),
}


def sdmx_format(f, k):
    """SDMX string of the docstring table of Period.to_sdmx_string"""
    if f == "I":
        return f"({k})"
    if f == "D":
        d = dt.date.fromordinal(k)
        return "%04d-%02d-%02d" % (d.year, d.month, d.day)
    year, seg = decode(f, k)
    if f == "Y":
        return "%04d" % year
    if f == "M":
        return "%04d-%02d" % (year, seg)
    return "%04d-%s%d" % (year, f, seg)


def sdmx_parse(s):
    """(f, k) for a string in the documented SDMX format, None otherwise (weekly included)"""
    if not isinstance(s, str):
        return None
    s = s.strip()
    for f in ALL:
        m = _SDMX[f].fullmatch(s)
        if not m:
            continue
        try:
            if f == "I":
                return f, int(m.group(1))
            if f == "D":
                return f, dt.date(int(m.group(1)), int(m.group(2)), int(m.group(3))).toordinal()
            year = int(m.group(1))
            if year < MINYEAR:
                return None
            seg = int(m.group(2)) if f != "Y" else 1
            return f, index(f, year, seg)
        except ValueError:
            return None
    return None


def iso_parse(s):
    """datetime.date of a yyyy-mm-dd string, None if it is not one"""
    m = re.fullmatch(r"(\d{4})-(\d{2})-(\d{2})", s.strip()) if isinstance(s, str) else None
    if not m:
        return None
    try:
        return dt.date(int(m.group(1)), int(m.group(2)), int(m.group(3)))
    except ValueError:
        return None


_REPR = {
    "Y": re.compile(r"yy\((-?\d+)\)"),
    "H": re.compile(r"hh\((-?\d+),(\d+)\)"),
    "Q": re.compile(r"qq\((-?\d+),(\d+)\)"),
    "M": re.compile(r"mm\((-?\d+),(\d+)\)"),
    "D": re.compile(r"dd\((\d+),(\d+),(\d+)\)"),
    "I": re.compile(r"ii\(([-+]?\d+)\)"),
}


def repr_parse(s):
    """independent reading of a constructor expression yy(y) / hh(y,s) / qq(y,s) / mm(y,s) / dd(y,m,d) / ii(n)"""
    s = s.replace(" ", "")
    for f in ALL:
        m = _REPR[f].fullmatch(s)
        if not m:
            continue
        g = [int(x) for x in m.groups()]
        try:
            if f == "I":
                return f, g[0]
            if f == "D":
                return f, dt.date(*g).toordinal()
            if f == "Y":
                return f, index(f, g[0], 1)
            if not valid_year_segment(f, g[0], g[1]):
                return None
            return f, index(f, g[0], g[1])
        except ValueError:
            return None
    return None


# ------------------------------------------------------------------ conversions between calendar frequencies

_RANK = {"Y": 0, "H": 1, "Q": 2, "M": 3, "D": 4}


def finer(g, f):
    """True if g is a strictly higher frequency than f"""
    return _RANK[g] > _RANK[f]


def refrequent_start(f, k, g):
    return index_of_day(g, first_day(f, k))


def refrequent_end(f, k, g):
    return index_of_day(g, last_day(f, k))


def refrequent_allowed(f, k, g):
    """closed interval of g-ordinals that overlap period (f, k): any position inside the source lands here"""
    return refrequent_start(f, k, g), refrequent_end(f, k, g)


def selfcheck(years=(1, 4, 100, 400, 1900, 1999, 2000, 2024, 9999)):
    """internal consistency of the oracle itself (two routes to the same answer); returns a list of problems"""
    bad = []
    for f in REGULAR:
        for y in years:
            for s in range(1, PER_YEAR[f] + 1):
                k = index(f, y, s)
                if decode(f, k) != (y, s):
                    bad.append(("decode", f, y, s))
                if index_of_day(f, first_day(f, k)) != k or index_of_day(f, last_day(f, k)) != k:
                    bad.append(("membership", f, y, s))
                if in_calendar(f, k + 1) and last_day(f, k) + ONE_DAY != first_day(f, k + 1):
                    bad.append(("tiling", f, y, s))
                if sdmx_parse(sdmx_format(f, k)) != (f, k):
                    bad.append(("sdmx", f, y, s))
    for y in years:
        n = n_segments("D", y)
        if (dt.date(y, 12, 31) - dt.date(y, 1, 1)).days + 1 != n:
            bad.append(("yearlen", y))
        for s in (1, 59, 60, 61, n):
            k = index("D", y, s)
            if decode("D", k) != (y, s) or sdmx_parse(sdmx_format("D", k)) != ("D", k):
                bad.append(("daily", y, s))
    total = 0
    for y in years:
        for f in REGULAR:
            cnt = sum(sum(1 for _ in days_of(f, index(f, y, s))) for s in range(1, PER_YEAR[f] + 1))
            if cnt != n_segments("D", y):
                bad.append(("partition", f, y, cnt))
            total += cnt
    return bad
