"""
Self-test of the monitors: plant small semantic mutations in a scratch copy of /repo/src
(outside /repo and /verif), run the property's check against the copy, expect VIOLATION.

  python -m irisverif.selftest [--only C16] [--ids C16-m1,C16-m2] [--tier quick] [--jobs 4] [--baseline]

Mutations live in selftest/mutations.json:
  {"id", "property", "file" (relative to repo root), "old", "new", "note", optional "also": [props also expected to fire]}
A patch file (unified diff, -p1 relative to the repo root) can be given instead with {"patch": "seeded/X/patch.diff"}.
--baseline additionally runs the repository's pinned test-suite against the mutated copy (to show the suite does not notice).
"""

from __future__ import annotations

import argparse
import concurrent.futures
import json
import os
import shutil
import subprocess
import sys
import tempfile
import time

VERIF = os.path.dirname(os.path.dirname(os.path.abspath(__file__)))
REPO = "/repo"


def make_copy(mut):
    root = tempfile.mkdtemp(prefix="irisverif-mut-", dir=os.environ.get("IRISVERIF_SCRATCH", "/tmp"))
    shutil.copytree(os.path.join(REPO, "src"), os.path.join(root, "src"), ignore=shutil.ignore_patterns("__pycache__", "*.pyc"))
    if mut.get("patch"):
        p = subprocess.run(["patch", "-p1", "-s", "-d", root, "-i", os.path.join(VERIF, mut["patch"])],
                           stdout=subprocess.PIPE, stderr=subprocess.STDOUT, text=True)
        if p.returncode != 0:
            shutil.rmtree(root, ignore_errors=True)
            raise RuntimeError(f"patch failed: {p.stdout}")
    else:
        edits = [mut] + list(mut.get("more", []))
        for e in edits:
            path = os.path.join(root, e["file"])
            s = open(path).read()
            n = s.count(e["old"])
            if n != 1:
                shutil.rmtree(root, ignore_errors=True)
                raise RuntimeError(f"{mut['id']}: 'old' occurs {n} times in {e['file']}")
            open(path, "w").write(s.replace(e["old"], e["new"]))
    return root


def run_one(mut, tier, baseline, props=None):
    t0 = time.time()
    try:
        root = make_copy(mut)
    except Exception as exc:
        return {"id": mut["id"], "status": "SETUP-ERROR", "msg": str(exc)}
    res = {"id": mut["id"], "property": mut["property"], "note": mut.get("note", "")}
    try:
        env = dict(os.environ)
        env["IRISVERIF_REPO"] = root
        env["PYTHONPATH"] = os.path.join(root, "src")
        # import smoke test
        p = subprocess.run(["/venv/bin/python", "-W", "ignore", "-c", "import irispie; print(irispie.__file__)"],
                           env=env, stdout=subprocess.PIPE, stderr=subprocess.STDOUT, text=True)
        if p.returncode != 0 or root not in p.stdout:
            res.update(status="IMPORT-ERROR", msg=p.stdout[-500:])
            return res
        fired = {}
        for prop in (props or [mut["property"]] + list(mut.get("also", []))):
            cmd = [os.path.join(VERIF, "check"), prop, "--tier", tier, "--no-evidence"]
            p = subprocess.run(cmd, env=env, stdout=subprocess.PIPE, stderr=subprocess.STDOUT, text=True, timeout=7200)
            lines = [l for l in p.stdout.splitlines() if l.startswith("VIOLATION-DETAIL")]
            fired[prop] = {"rc": p.returncode, "detail": lines[:2]}
        res["fired"] = fired
        main = fired[(props or [mut["property"]])[0]]
        res["status"] = "CAUGHT" if main["rc"] == 1 else ("INCONCLUSIVE" if main["rc"] == 2 else "MISSED")
        if baseline:
            cmd = ["/venv/bin/python", "-m", "pytest", "-q", "-x", "-p", "no:cacheprovider", "--timeout=900",
                   "--continue-on-collection-errors", "-W", "ignore", os.path.join(REPO, "tests")]
            p = subprocess.run(cmd, env=env, cwd=root, stdout=subprocess.PIPE, stderr=subprocess.STDOUT, text=True, timeout=3600)
            tail = p.stdout.strip().splitlines()[-1] if p.stdout.strip() else ""
            res["baseline_tail"] = tail
    finally:
        shutil.rmtree(root, ignore_errors=True)
    res["wall_s"] = round(time.time() - t0, 1)
    return res


def main():
    ap = argparse.ArgumentParser()
    ap.add_argument("--only")
    ap.add_argument("--ids")
    ap.add_argument("--tier", default="quick")
    ap.add_argument("--jobs", type=int, default=2)
    ap.add_argument("--baseline", action="store_true")
    ap.add_argument("--file", help="one mutation file (default: every selftest/*.json)")
    ap.add_argument("--props", help="comma list: run these checks instead of the mutation's own property")
    args = ap.parse_args()
    import glob
    files = [args.file] if args.file else sorted(glob.glob(os.path.join(VERIF, "selftest", "*.json")))
    muts = [m for f in files for m in json.load(open(f))]
    if args.only:
        want = set(args.only.upper().split(","))
        muts = [m for m in muts if m["property"] in want]
    if args.ids:
        ids = set(args.ids.split(","))
        muts = [m for m in muts if m["id"] in ids]
    props = args.props.upper().split(",") if args.props else None
    bad = 0
    with concurrent.futures.ThreadPoolExecutor(max_workers=args.jobs) as ex:
        for res in ex.map(lambda m: run_one(m, args.tier, args.baseline, props), muts):
            print(json.dumps(res))
            sys.stdout.flush()
            if res.get("status") != "CAUGHT":
                bad += 1
    print(f"selftest: {len(muts) - bad}/{len(muts)} mutations caught")
    return 0 if bad == 0 else 1


if __name__ == "__main__":
    sys.exit(main())
